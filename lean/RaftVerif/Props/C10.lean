import RaftVerif.Proofs.Conf10Gate
import RaftVerif.Proofs.Conf10Closed
import RaftVerif.Proofs.Conf10Step
import RaftVerif.Proofs.Conf10Hup
import RaftVerif.Proofs.Conf10Leader
import RaftVerif.Proofs.Conf10Apply
import RaftVerif.Proofs.Conf10AutoLeave
import RaftVerif.Proofs.ConfChangeExamples
import RaftVerif.Props.C13
/-!
# C10  Membership changes are serialized — local theorems about the node model

Property theorems only.  Definitions and helper lemmas are in `Proofs/Conf10*.lean`:

* `Conf10.ccDecode e`        — `decodeCC` as a pure function (`.ok none` = not a configuration change,
                               `.error _` = `proto.Unmarshal` failed, which panics in Go and in the model)
* `Conf10.gate r pci xs`     — the filtering loop of `stepLeader`/MsgProp (raft.go:1309-1347) as a pure
                               function: the list handed to `appendEntry` and the final `pendingConfIndex`
* `Conf10.withPCI r pci`     — `{ r with pendingConfIndex := pci }`
* `Conf10.neut e`            — `e` if it is not a configuration change, else the empty normal entry
* `Conf10.ccEntries ents`    — the configuration-change entries among `ents`
* `Conf10.UnappliedCC l`     — some entry of the logical log `l.abs` with index in `(applied, committed]` is a
                               ConfChange / ConfChangeV2
* `Conf10.OwnTermCCInv r`    — invariant (I), see `at_most_one_unapplied_cc`
* `Conf10.leaderEntry s`     — the empty entry `becomeLeader` appends
* `Conf10.changerOf r`       — `{ tracker := r.trk, lastIndex := r.log.lastIndex }`, the Changer the node uses
* `applyV2 c cc` (C13)       — `leaveJoint` / `enterJoint` / `simple`, chosen by `cc.leaveJoint` / `cc.enterJoint`
* `Conf10.installed r cfg trk`, `Conf10.selfLearner r trk`, `Conf10.switched r cfg trk` — the tracker with
                               `(cfg, trk)` installed; the node's own `isLearner` flag in `trk` (`false`
                               without entry); `r` with both updated
* `Conf10.Sim t t'`          — two progress maps with the same keys and `isLearner` flags
* `Conf10.autoLeaveEntry`    — `{ typ := some .confChangeV2, data := none }`, the proposal of `appliedTo`

All statements are about plain `.run` of the model's state monad (`Except.error` = Go panic).  The logical
log is `r.log.abs : ALog` (Props/C18): `entry? i` is the entry at index `i`.
-/
namespace RaftVerif.C10
open Raft Conf10

/-! ## 1. the propose-time gate (raft.go:1309-1347) -/

/-- **run equation**: a leader that has its own progress entry and is not transferring leadership handles
a non-empty MsgProp by running the gate over the proposed entries — a failing `proto.Unmarshal` panics —
and then `appendEntry` on the gated list, in the state whose `pendingConfIndex` is the one the gate left;
a refused `appendEntry` drops the proposal, otherwise `bcastAppend` follows.
(No hypothesis on `disableConfChangeValidation`: `Conf10.gate` covers both settings.) -/
theorem propose_cc_gate_run (fuel : Nat) (m : Message) (r : Raft) (hm : m.typ = .prop)
    (hne : m.entries ≠ []) (hself : (r.trk.getProgress r.cfg.id).isNone = false)
    (hlt : r.leadTransferee = 0) :
    (stepLeader fuel m).run r =
      match gate r r.pendingConfIndex m.entries.zipIdx with
      | .error s => .error s
      | .ok (ents, pci) =>
        (do let ok ← appendEntry ents
            if (!ok) = true then pure (some StepErr.proposalDropped)
            else do
              bcastAppend
              pure none : M (Option StepErr)).run (withPCI r pci) :=
  stepLeader_prop_gate_run fuel m r hm hne hself hlt

/-- **outcome of the step**, whenever it returns: the gate produced `(ents, pci)`; then either the proposal
was dropped by the uncommitted-size limit — nothing but `pendingConfIndex := pci` changed — or `ents`,
stamped with the leader's term and the indexes `lastIndex+1, …` (`cloneEntries`), were appended to the log
(`appended`: log, `uncommittedSize`, self-acknowledgement in `msgsAfterAppend`) and `bcastAppend` ran
(`SendFrame`: only message queues and progress records change) -/
theorem propose_cc_outcome (fuel : Nat) (m : Message) (r r' : Raft) (res : Option StepErr)
    (hm : m.typ = .prop) (hne : m.entries ≠ []) (hself : (r.trk.getProgress r.cfg.id).isNone = false)
    (hlt : r.leadTransferee = 0) (h : (stepLeader fuel m).run r = .ok (res, r')) :
    ∃ ents pci, gate r r.pendingConfIndex m.entries.zipIdx = .ok (ents, pci) ∧
      ((res = some .proposalDropped ∧ r' = withPCI r pci ∧
          (r.uncommittedSize > 0 ∧ payloadsSize ents > 0 ∧
            r.uncommittedSize + payloadsSize ents > r.cfg.maxUncommittedSize)) ∨
       (res = none ∧ ¬ (r.uncommittedSize > 0 ∧ payloadsSize ents > 0 ∧
            r.uncommittedSize + payloadsSize ents > r.cfg.maxUncommittedSize) ∧
          ∃ l li, r.log.append (cloneEntries r ents) = .ok (l, li) ∧
            SendFrame (appended (withPCI r pci) ents l li) r')) :=
  stepLeader_prop_outcome fuel m r r' res hm hne hself hlt h

/-- the gate fails (panics) exactly when some proposed entry of type ConfChange / ConfChangeV2 cannot be
decoded -/
theorem propose_cc_gate_panics_iff (r : Raft) (es : List Entry) (pci : Nat) :
    (∃ s, gate r pci es.zipIdx = .error s) ↔ ∃ e ∈ es, ∃ s, ccDecode e = .error s := by
  have h := gate_isOk_iff r es.zipIdx pci
  constructor
  · rintro ⟨s, hs⟩
    have hn : ¬ ∀ x ∈ es.zipIdx, ∃ o, ccDecode x.1 = .ok o := by
      intro hall
      obtain ⟨q, hq⟩ := h.2 hall
      rw [hs] at hq; cases hq
    false_or_by_contra
    rename_i hcon
    apply hn
    intro x hx
    have hmem : x.1 ∈ es := by
      obtain ⟨e, k⟩ := x
      exact (List.mem_zipIdx hx).2.2 ▸ List.getElem_mem _
    cases hd : ccDecode x.1 with
    | ok o => exact ⟨o, rfl⟩
    | error s' => exact absurd ⟨x.1, hmem, s', hd⟩ hcon
  · rintro ⟨e, he, s, hs⟩
    cases hg : gate r pci es.zipIdx with
    | error s' => exact ⟨s', rfl⟩
    | ok q =>
      exfalso
      obtain ⟨k, hk⟩ := List.getElem?_of_mem he
      have hx : (e, k) ∈ es.zipIdx := by
        rw [List.mem_zipIdx_iff_getElem?]; simpa using hk
      obtain ⟨o, ho⟩ := h.1 ⟨q, hg⟩ (e, k) hx
      rw [hs] at ho; cases ho

/-- **the gate, entry by entry** (validation enabled).  The loop yields `(ents, pci')` iff `ents` has the
length of the proposal and there is a sequence `p 0, …, p n` of values of `pendingConfIndex` — `p 0` the
value before the proposal, `p n = pci'` — such that for every position `i`:
* the entry is not a configuration change: it is kept and `pendingConfIndex` stays;
* it decodes to `cc` and, *at that point*, `pendingConfIndex ≤ applied`, (the configuration is joint ↔ `cc`
  has no changes) and `checkConfChange r cc`: it is kept and `pendingConfIndex := lastIndex + i + 1`, the
  index it is about to get;
* it decodes to `cc` and one of the three conditions fails: it is replaced by the empty normal entry
  `{typ := some .normal, data := none}` and `pendingConfIndex` stays. -/
theorem propose_cc_gate (r : Raft) (hval : r.cfg.disableConfChangeValidation = false) (es ents : List Entry)
    (pci' : Nat) :
    gate r r.pendingConfIndex es.zipIdx = .ok (ents, pci') ↔
      ents.length = es.length ∧ ∃ p : Nat → Nat, p 0 = r.pendingConfIndex ∧ p es.length = pci' ∧
        ∀ i (h1 : i < es.length) (h2 : i < ents.length),
          (es[i].getType = .normal ∧ ents[i] = es[i] ∧ p (i + 1) = p i) ∨
          (∃ cc, ccDecode es[i] = .ok (some cc) ∧
            (((p i ≤ r.log.applied ∧ (0 < r.trk.outgoingL.length ↔ cc.changes = []) ∧
                  r.checkConfChange cc = true) ∧
                ents[i] = es[i] ∧ p (i + 1) = r.log.lastIndex + i + 1) ∨
             (¬ (p i ≤ r.log.applied ∧ (0 < r.trk.outgoingL.length ↔ cc.changes = []) ∧
                  r.checkConfChange cc = true) ∧
                ents[i] = { typ := some .normal, data := none } ∧ p (i + 1) = p i))) := by
  have h := gate_ok_iff_trace r hval es 0 r.pendingConfIndex ents pci'
  simp only [Nat.zero_add] at h
  exact h

/-- **the gate in closed form** (validation enabled, `applied ≤ lastIndex`): either no proposed
configuration change passes the gate evaluated with the `pendingConfIndex` before the proposal — then all
of them are neutralised and `pendingConfIndex` stays — or the first one that passes is kept, every other
configuration change of the batch, before and after it, is neutralised (the later ones because the kept
one has set `pendingConfIndex` above `applied`), and `pendingConfIndex` becomes the index of the kept one -/
theorem propose_cc_gate_closed (r : Raft) (hval : r.cfg.disableConfChangeValidation = false)
    (happ : r.log.applied ≤ r.log.lastIndex) (es ents : List Entry) (pci' : Nat)
    (h : gate r r.pendingConfIndex es.zipIdx = .ok (ents, pci')) :
    ((∀ e ∈ es, ∀ cc, ccDecode e = .ok (some cc) →
          ¬ (r.pendingConfIndex ≤ r.log.applied ∧ (0 < r.trk.outgoingL.length ↔ cc.changes = []) ∧
              r.checkConfChange cc = true)) ∧
        ents = es.map neut ∧ pci' = r.pendingConfIndex) ∨
    (∃ pre e post cc, es = pre ++ e :: post ∧
      (∀ e' ∈ pre, ∀ cc', ccDecode e' = .ok (some cc') →
          ¬ (r.pendingConfIndex ≤ r.log.applied ∧ (0 < r.trk.outgoingL.length ↔ cc'.changes = []) ∧
              r.checkConfChange cc' = true)) ∧
      ccDecode e = .ok (some cc) ∧
      (r.pendingConfIndex ≤ r.log.applied ∧ (0 < r.trk.outgoingL.length ↔ cc.changes = []) ∧
        r.checkConfChange cc = true) ∧
      ents = pre.map neut ++ e :: post.map neut ∧ pci' = r.log.lastIndex + pre.length + 1) := by
  have h := gate_closed r hval happ es 0 r.pendingConfIndex ents pci' h
  simp only [GateClosed, Nat.add_zero] at h
  exact h

/-- with validation disabled (`DisableConfChangeValidation`) nothing is neutralised: the gate hands every
proposed entry to `appendEntry` unchanged -/
theorem propose_cc_gate_disabled (r : Raft) (hval : r.cfg.disableConfChangeValidation = true)
    (es ents : List Entry) (pci pci' : Nat) (h : gate r pci es.zipIdx = .ok (ents, pci')) : ents = es :=
  gate_disabled r hval es 0 pci ents pci' h

/-- what `neut` is: the identity on entries that are not configuration changes, the empty normal entry
otherwise; the result is never a configuration change -/
theorem neut_spec (e : Entry) :
    (e.getType = .normal → neut e = e) ∧
    (e.getType ≠ .normal → neut e = { typ := some .normal, data := none }) ∧
    (neut e).getType = .normal :=
  ⟨neut_of_normal, neut_of_cc, neut_getType e⟩

/-- **single step: at most one configuration change per accepted proposal** (validation enabled,
well-formed log).  After an accepted MsgProp the logical log is the old one extended by the gated entries
`ents` stamped with the leader's term and consecutive indexes (`cloneEntries`), at most one of them is a
configuration change, and if there is one, `pendingConfIndex` was `≤ applied` before the step and is the
index of that entry afterwards. -/
theorem accepted_prop_at_most_one_cc (fuel : Nat) (m : Message) (r r' : Raft)
    (hm : m.typ = .prop) (hne : m.entries ≠ []) (hself : (r.trk.getProgress r.cfg.id).isNone = false)
    (hlt : r.leadTransferee = 0) (hval : r.cfg.disableConfChangeValidation = false) (hwf : r.log.WF)
    (h : (stepLeader fuel m).run r = .ok (none, r')) :
    ∃ ents l li, ents.length = m.entries.length ∧ r.log.append (cloneEntries r ents) = .ok (l, li) ∧
      r'.log = l ∧ r'.term = r.term ∧
      (ccEntries ents).length ≤ 1 ∧
      (∀ j y, ents[j]? = some y → y.getType ≠ .normal →
        r.pendingConfIndex ≤ r.log.applied ∧ r'.pendingConfIndex = r.log.lastIndex + j + 1 ∧
        m.entries[j]? = some y) := by
  obtain ⟨ents, pci, hg, hcase⟩ := stepLeader_prop_outcome fuel m r r' none hm hne hself hlt h
  rcases hcase with ⟨h0, _⟩ | ⟨_, _, l, li, ha, hsf⟩
  · cases h0
  have happ : r.log.applied ≤ r.log.lastIndex :=
    Nat.le_trans (Nat.le_trans hwf.appliedLeApplying hwf.applyingLeCommitted) hwf.committedLeLast
  have hclosed := gate_closed r hval happ m.entries 0 r.pendingConfIndex ents pci hg
  refine ⟨ents, l, li, by rw [gate_length hg, List.length_zipIdx], ha, hsf.log, hsf.term,
    gate_at_most_one r hval happ m.entries 0 r.pendingConfIndex ents pci hg, ?_⟩
  intro j y hy hcc
  obtain ⟨hp, hq⟩ := hclosed.cc_position hy hcc
  refine ⟨hq, by rw [hsf.pendingConfIndex]; show pci = _; omega, ?_⟩
  -- the kept configuration change is the proposed entry at the same position
  rcases hclosed with ⟨_, rfl, _⟩ | ⟨pre, e, post, cc, hes, _, _, _, rfl, hpci⟩
  · exfalso
    obtain ⟨x, _, rfl⟩ := List.mem_map.1 (List.mem_of_getElem? hy)
    exact hcc (neut_getType x)
  · have hj : j = pre.length := by omega
    subst hj
    rw [hes]
    rw [List.getElem?_append_right (by simp)] at hy ⊢
    simpa using hy

/-- **(I) is preserved by an accepted proposal** (validation enabled, well-formed log).
`OwnTermCCInv r`: every configuration-change entry of the node's current term in the logical log above
`applied` has an index `≤ pendingConfIndex`, and there is at most one such entry.  -/
theorem at_most_one_unapplied_cc (fuel : Nat) (m : Message) (r r' : Raft)
    (hm : m.typ = .prop) (hne : m.entries ≠ []) (hself : (r.trk.getProgress r.cfg.id).isNone = false)
    (hlt : r.leadTransferee = 0) (hval : r.cfg.disableConfChangeValidation = false)
    (hwf : r.log.WF) (hinv : OwnTermCCInv r)
    (h : (stepLeader fuel m).run r = .ok (none, r')) : OwnTermCCInv r' ∧ r'.log.WF :=
  accepted_prop_keeps_inv fuel m r r' hm hne hself hlt hval hwf hinv h

/-- the statement of (I), spelled out -/
theorem ownTermCCInv_iff (r : Raft) :
    OwnTermCCInv r ↔
      (∀ i e, r.log.abs.entry? i = some e → e.getType ≠ .normal → e.term = r.term → r.log.applied < i →
        i ≤ r.pendingConfIndex) ∧
      (∀ i j ei ej, r.log.abs.entry? i = some ei → r.log.abs.entry? j = some ej →
        ei.getType ≠ .normal → ej.getType ≠ .normal → ei.term = r.term → ej.term = r.term →
        r.log.applied < i → r.log.applied < j → i = j) :=
  ⟨fun h => ⟨h.le_pci, h.unique⟩, fun h => ⟨h.1, h.2⟩⟩

/-- (I) survives every step that keeps the logical log, the term and `pendingConfIndex` and does not lower
`applied` (applying entries, advancing the commit index, sending messages, ticking, …) -/
theorem unapplied_cc_inv_frame (r r' : Raft) (h : OwnTermCCInv r) (habs : r'.log.abs = r.log.abs)
    (hterm : r'.term = r.term) (hpci : r'.pendingConfIndex = r.pendingConfIndex)
    (happ : r.log.applied ≤ r'.log.applied) : OwnTermCCInv r' :=
  h.of_applied_le habs hterm hpci happ

/-- a dropped proposal (uncommitted-size limit) changes nothing but `pendingConfIndex`, which keeps the
value the gate gave it — as in the Go code, where `r.pendingConfIndex` is assigned before `appendEntry` -/
theorem dropped_prop_only_pci (fuel : Nat) (m : Message) (r r' : Raft)
    (hm : m.typ = .prop) (hne : m.entries ≠ []) (hself : (r.trk.getProgress r.cfg.id).isNone = false)
    (hlt : r.leadTransferee = 0)
    (h : (stepLeader fuel m).run r = .ok (some .proposalDropped, r')) :
    ∃ ents pci, gate r r.pendingConfIndex m.entries.zipIdx = .ok (ents, pci) ∧
      r' = { r with pendingConfIndex := pci } := by
  obtain ⟨ents, pci, hg, hcase⟩ := stepLeader_prop_outcome fuel m r r' _ hm hne hself hlt h
  rcases hcase with ⟨_, h1, _⟩ | ⟨h0, _⟩
  · exact ⟨ents, pci, hg, h1⟩
  · cases h0

/-! ## 2. `hup` refuses to campaign with a committed, unapplied configuration change (raft.go:973-1021) -/

/-- if `hasUnappliedConfChanges` answers `true`, `hup` leaves the state unchanged, for every campaign type -/
theorem hup_refuses_with_unapplied_cc (t : CampaignType) (r : Raft)
    (h : hasUnappliedConfChanges.run r = .ok (true, r)) : (hup t).run r = .ok ((), r) :=
  hup_refuses t r h

/-- `raftLog.scan` as used by `hasUnappliedConfChanges` (paginated by `pageSize`, any page size): on a
range inside a well-formed log, with one unit of fuel per entry, it never fails and finds exactly whether
some entry of the logical log in `[lo, hi)` satisfies the visitor -/
theorem scanAny_correct {l : RaftLog} (h : l.WF) (p : Entry → Bool) (pageSize fuel lo hi : Nat)
    (h1 : l.abs.first ≤ lo) (h2 : hi ≤ l.abs.last + 1) (hf : hi - lo < fuel) :
    l.scanAny p pageSize fuel lo hi = .ok ((l.abs.slice lo hi).any p) :=
  scanAny_eq h p pageSize fuel lo hi h1 h2 hf

/-- **`hasUnappliedConfChanges`** (well-formed log, no pending snapshot — `hup` calls it only after
`promotable`, which excludes a pending snapshot): it never panics, does not change the state, and answers
`true` iff some entry with index in `(applied, committed]` has type ConfChange or ConfChangeV2 -/
theorem hasUnappliedConfChanges_iff (r : Raft) (hwf : r.log.WF) (hsn : r.log.unstable.snapshot = none) :
    ∃ b, hasUnappliedConfChanges.run r = .ok (b, r) ∧
      (b = true ↔ ∃ i e, r.log.applied < i ∧ i ≤ r.log.committed ∧ r.log.abs.entry? i = some e ∧
        (e.getType = .confChange ∨ e.getType = .confChangeV2)) := by
  classical
  exact ⟨_, hasUnappliedConfChanges_run r hwf hsn, by simp [UnappliedCC]⟩

/-- **`hup`, all cases** (well-formed log): a leader, a node without own progress entry, a learner, a node
with a pending snapshot and a node that knows of a committed but unapplied configuration change do
nothing; every other node campaigns -/
theorem hup_cases (t : CampaignType) (r : Raft) (hwf : r.log.WF) :
    (r.state = .leader → (hup t).run r = .ok ((), r)) ∧
    (r.trk.getProgress r.cfg.id = none → (hup t).run r = .ok ((), r)) ∧
    (∀ pr, r.trk.getProgress r.cfg.id = some pr →
      (pr.isLearner = true ∨ r.log.unstable.snapshot.isSome = true → (hup t).run r = .ok ((), r)) ∧
      (UnappliedCC r.log → (hup t).run r = .ok ((), r)) ∧
      (r.state ≠ .leader → pr.isLearner = false → r.log.unstable.snapshot = none → ¬ UnappliedCC r.log →
        (hup t).run r = (campaign t).run r)) := by
  classical
  have h := hup_run t r hwf
  refine ⟨fun hl => by rw [h, if_pos hl], fun hn => ?_, fun pr hp => ⟨fun hq => ?_, fun hu => ?_, fun hl h1 h2 hu => ?_⟩⟩
  · rw [h, hn]; simp only [ite_self]
  · rw [h, hp]; simp only [if_pos hq, ite_self]
  · rw [h, hp]; simp only [if_pos hu, ite_self]
  · rw [h, hp, if_neg hl]; simp only
    rw [if_neg (by simp [h1, h2]), if_neg hu]

/-! ## 3. a new leader sets `pendingConfIndex` to its last index (raft.go:953-958) -/

/-- after `becomeLeader`, `pendingConfIndex` is the last index of the log the node had when it won -/
theorem becomeLeader_sets_pendingConfIndex (r r' : Raft) (h : becomeLeader.run r = .ok ((), r')) :
    r'.pendingConfIndex = r.log.lastIndex ∧ r'.term = r.term ∧ r'.state = .leader ∧
    ∃ p, r.log.append [leaderEntry r] = .ok p ∧ r'.log = p.1 :=
  (becomeLeader_pci_spec r).elim h

/-- with a well-formed log: the new log is the old one plus the leader's empty entry; every entry that
was in the log before — in particular every inherited, possibly unapplied configuration change — has an
index `≤ pendingConfIndex`, and so has every configuration change of the new log (the appended entry is
not one); hence no configuration change can be proposed until all of them are applied (`propose_cc_gate`) -/
theorem becomeLeader_pendingConfIndex_covers_log (r r' : Raft) (hwf : r.log.WF)
    (h : becomeLeader.run r = .ok ((), r')) :
    r'.pendingConfIndex = r.log.lastIndex ∧ r'.log.WF ∧ r'.log.applied = r.log.applied ∧
    r'.log.abs.base = r.log.abs.base ∧
    r'.log.abs.ents = r.log.abs.ents ++ [{ term := r.term, index := r.log.lastIndex + 1 }] ∧
    (∀ i e, r.log.abs.entry? i = some e → i ≤ r'.pendingConfIndex) ∧
    (∀ i e, r'.log.abs.entry? i = some e → e.getType ≠ .normal → i ≤ r'.pendingConfIndex) := by
  obtain ⟨h1, _, _, h2, h3, _, h4, h5, h6, h7⟩ := (becomeLeader_pci_log r hwf).elim h
  exact ⟨h1, h2, h3, h4, h5, fun i e hie => (h6 i e hie).1, fun i e hie hc => (h7 i e hie hc).1⟩

/-- a node that wins the election of a term of which its log holds no entry starts with (I) -/
theorem becomeLeader_establishes_I (r r' : Raft) (hwf : r.log.WF)
    (hnew : ∀ i e, r.log.abs.entry? i = some e → e.term ≠ r.term)
    (h : becomeLeader.run r = .ok ((), r')) : OwnTermCCInv r' :=
  (becomeLeader_establishes_inv r hwf hnew).elim h

/-! ## 4. `applyConfChange` is the Changer followed by `switchToConfig` (raft.go:1951-2035) -/

/-- the Changer operation is chosen by `cc.leaveJoint` / `cc.enterJoint` -/
theorem applyV2_def (c : Changer) (cc : ConfChangeV2) :
    applyV2 c cc =
      if cc.leaveJoint then c.leaveJoint
      else match cc.enterJoint with
        | some autoLeave => c.enterJoint autoLeave cc.changes
        | none => c.simple cc.changes := rfl

/-- **`applyConfChange` = Changer + `switchToConfig`**: a Changer error panics (message
`applyConfChange: <error>`); a Changer result `(cfg, trk)` is handed to `switchToConfig` -/
theorem applyConfChange_is_changer (cc : ConfChangeV2) (r : Raft) :
    (∀ e, applyV2 (changerOf r) cc = .error e →
      (applyConfChange cc).run r = .error s!"applyConfChange: {e}") ∧
    (∀ cfg trk, applyV2 (changerOf r) cc = .ok (cfg, trk) →
      (applyConfChange cc).run r = (switchToConfig cfg trk).run r) := by
  refine ⟨fun e h => ?_, fun cfg trk h => ?_⟩ <;> rw [applyConfChange_run, h]

/-- whenever `applyConfChange` returns, the Changer accepted the change with some `(cfg, trk)`; the returned
ConfState is that of `cfg`; the node's configuration is exactly `cfg` and its `isLearner` flag is its own
flag in `trk`; term and static config are untouched; and, by role:
* not leader: nothing else changes (the progress map is exactly `trk`);
* leader no longer a voter (removed or demoted): without `StepDownOnRemoval` nothing else changes, with it
  the node becomes follower of the same term, same vote, no leader, same log;
* leader still a voter: it stays leader; the commit index does not go back (messages may be sent, progress
  records updated). -/
theorem applyConfChange_result (cc : ConfChangeV2) (r r' : Raft) (cs : ConfState)
    (h : (applyConfChange cc).run r = .ok (cs, r')) :
    ∃ cfg trk, applyV2 (changerOf r) cc = .ok (cfg, trk) ∧
      cs = (installed r cfg trk).confState ∧ r'.trk.cfg = cfg ∧ r'.isLearner = selfLearner r trk ∧
      r'.term = r.term ∧ r'.cfg = r.cfg ∧
      (r.state ≠ .leader → r' = switched r cfg trk) ∧
      (r.state = .leader → (mapGet trk r.cfg.id = none ∨ selfLearner r trk = true) →
        (r.cfg.stepDownOnRemoval = false → r' = switched r cfg trk) ∧
        (r.cfg.stepDownOnRemoval = true →
          r'.state = .follower ∧ r'.vote = r.vote ∧ r'.lead = 0 ∧ r'.log = r.log)) ∧
      (r.state = .leader → (mapGet trk r.cfg.id).isSome = true → selfLearner r trk = false →
        r'.state = .leader ∧ r'.lead = r.lead ∧ r.log.committed ≤ r'.log.committed) :=
  applyConfChange_effects cc r r' cs h

/-- what `installed` / `selfLearner` / `switched` are -/
theorem switched_spec (r : Raft) (cfg : TrackerConfig) (trk : ProgressMap) :
    installed r cfg trk = { r.trk with cfg := cfg, progress := trk } ∧
    selfLearner r trk = ((mapGet trk r.cfg.id).map (·.isLearner)).getD false ∧
    switched r cfg trk = { r with trk := { r.trk with cfg := cfg, progress := trk },
                                  isLearner := ((mapGet trk r.cfg.id).map (·.isLearner)).getD false } :=
  ⟨rfl, rfl, rfl⟩

/-- on a node that is not leader, `applyConfChange` succeeds **iff** the Changer accepts; it is total:
either the Changer panic or the installed configuration -/
theorem applyConfChange_nonleader (cc : ConfChangeV2) (r : Raft) (hl : r.state ≠ .leader) :
    (applyConfChange cc).run r =
      match applyV2 (changerOf r) cc with
      | .error e => .error s!"applyConfChange: {e}"
      | .ok (cfg, trk) => .ok ((installed r cfg trk).confState, switched r cfg trk) := by
  rw [applyConfChange_run]
  cases applyV2 (changerOf r) cc with
  | error e => rfl
  | ok p => exact switchToConfig_nonleader_run p.1 p.2 r hl

/-- `checkConfChange` — the third condition of the propose-time gate — is "the Changer accepts now" -/
theorem checkConfChange_is_changer (r : Raft) (cc : ConfChangeV2) :
    r.checkConfChange cc = true ↔ ∃ cfg trk, applyV2 (changerOf r) cc = .ok (cfg, trk) := by
  rw [checkConfChange_iff]
  exact ⟨fun ⟨p, h⟩ => ⟨p.1, p.2, h⟩, fun ⟨a, b, h⟩ => ⟨(a, b), h⟩⟩

/-- **whether the Changer accepts depends only on the configuration and the `isLearner` flags** — not on
`lastIndex`, `match`, `next`, inflights, … (with C13: the target configuration must be valid) -/
theorem changer_accepts_transfer (c c' : Changer) (cc : ConfChangeV2)
    (hcfg : c'.tracker.cfg = c.tracker.cfg)
    (hsim : ∀ id, (mapGet c.tracker.progress id).map (·.isLearner) = (mapGet c'.tracker.progress id).map (·.isLearner))
    (hs' : ConfReach c'.tracker.cfg c'.tracker.progress) (cfg : TrackerConfig) (trk : ProgressMap)
    (h : applyV2 c cc = .ok (cfg, trk)) :
    ∃ trk', applyV2 c' cc = .ok (cfg, trk') ∧
      ∀ id, (mapGet trk id).map (·.isLearner) = (mapGet trk' id).map (·.isLearner) := by
  obtain ⟨p', h1, h2, h3⟩ := applyV2_accepts_transfer c c' cc hcfg hsim hs' h
  obtain ⟨cfg', trk'⟩ := p'
  simp only at h2
  subst h2
  exact ⟨trk', h1, h3⟩

/-- **a gated configuration change never panics in the Changer when applied** (C13 + the gate): let `r`
be the leader's state when the change passed the gate (`checkConfChange r cc = true`, item 1) and `r2` the
state of any node when it applies the entry, holding the same configuration — valid in the sense of C13
(`ConfReach`), progress records possibly different in everything but `isLearner`, log possibly longer.
Then the Changer accepts, the new configuration is again valid, and `applyConfChange` is `switchToConfig`
of it; on a node that is not leader the whole `applyConfChange` cannot panic. -/
theorem gated_cc_never_panics (r r2 : Raft) (cc : ConfChangeV2) (hgate : r.checkConfChange cc = true)
    (hcfg : r2.trk.cfg = r.trk.cfg)
    (hsim : ∀ id, (mapGet r.trk.progress id).map (·.isLearner) = (mapGet r2.trk.progress id).map (·.isLearner))
    (hreach : ConfReach r2.trk.cfg r2.trk.progress) :
    ∃ cfg trk, applyV2 (changerOf r2) cc = .ok (cfg, trk) ∧ ConfReach cfg trk ∧
      (applyConfChange cc).run r2 = (switchToConfig cfg trk).run r2 ∧
      (r2.state ≠ .leader →
        (applyConfChange cc).run r2 = .ok ((installed r2 cfg trk).confState, switched r2 cfg trk)) := by
  obtain ⟨cfg, trk, h1, h2, h3⟩ := gated_cc_applies r r2 cc hgate hcfg hsim hreach
  exact ⟨cfg, trk, h1, h2, h3, fun hl => by rw [h3]; exact switchToConfig_nonleader_run cfg trk r2 hl⟩

/-! ## 5. auto-leave (raft.go:737-764) -/

/-- **`appliedTo`**: the applied cursor advances to `max index applied` (panic iff that is beyond
`committed`, C08); then, iff the configuration is an auto-leave joint one, the new applied index has reached
`pendingConfIndex` and the node is leader, `Step` is invoked with the empty ConfChangeV2 proposal -/
theorem autoleave_proposed (fuel index size : Nat) (r : Raft) :
    (appliedTo fuel index size).run r =
      match r.log.appliedTo (max index r.log.applied) size with
      | .error e => .error e
      | .ok l =>
        if r.trk.cfg.autoLeave = true ∧ r.pendingConfIndex ≤ max index r.log.applied ∧ r.state = .leader
        then (do let _ ← step fuel { typ := .prop, entries := [{ typ := some .confChangeV2, data := none }] }
                 pure () : M Unit).run { r with log := l }
        else .ok ((), { r with log := l }) :=
  appliedTo_run fuel index size r

/-- **… and that proposal passes the gate**: for a leader (own progress entry, no leadership transfer,
validation enabled) in a valid (`ConfReach`) auto-leave configuration, the state after `appliedTo` is the
result of `appendEntry [empty ConfChangeV2]` followed (unless dropped by the size limit — impossible for an
empty payload when nothing else is uncommitted) by `bcastAppend`, started in the state with the advanced
cursor and `pendingConfIndex := lastIndex + 1`, the index of the leave-joint entry -/
theorem autoleave_proposed_result (fuel index size : Nat) (r : Raft) (l : RaftLog)
    (hal : r.trk.cfg.autoLeave = true) (hpci : r.pendingConfIndex ≤ max index r.log.applied)
    (hl : r.state = .leader) (happ : r.log.appliedTo (max index r.log.applied) size = .ok l)
    (hself : (r.trk.getProgress r.cfg.id).isNone = false) (hlt : r.leadTransferee = 0)
    (hval : r.cfg.disableConfChangeValidation = false)
    (hreach : ConfReach r.trk.cfg r.trk.progress) :
    (appliedTo (fuel + 1) index size).run r =
      (do let ok ← appendEntry [{ typ := some .confChangeV2, data := none }]
          if (!ok) = true then pure () else bcastAppend : M Unit).run
        { r with log := l, pendingConfIndex := l.lastIndex + 1 } :=
  appliedTo_autoLeave_run fuel index size r l hal hpci hl happ hself hlt hval hreach

/-- an auto-leave configuration that passes `checkInvariants` is joint, and in a valid joint configuration
the Changer accepts `LeaveJoint` — the two facts that make the auto-leave proposal pass the gate -/
theorem autoleave_gate_facts (r : Raft) (hreach : ConfReach r.trk.cfg r.trk.progress)
    (hal : r.trk.cfg.autoLeave = true) :
    0 < r.trk.outgoingL.length ∧ r.checkConfChange { transition := .auto, changes := [] } = true := by
  obtain ⟨hj, hjl⟩ := autoLeave_joint hreach.strong.inv hal
  exact ⟨hjl, checkConfChange_leave r hreach hj⟩

/-! ## 6. a joint configuration needs majorities of both voter sets (tracker.go `Committed` / `TallyVotes`)

`Quorum.ackedAtLeast c ack k` (C12) is the number of voters of `c` whose acknowledged index is `≥ k`;
`Quorum.yesCount c votes` the number of voters of `c` that voted yes. -/

/-- **commit needs majorities of both voter sets**: when `maybeCommit` advances the commit index, the new
index has been acknowledged (`match ≥ index`) by a strict majority of the incoming voters and — while the
configuration is joint — by a strict majority of the outgoing voters as well -/
theorem commit_needs_both_majorities (r r' : Raft) (h : maybeCommit.run r = .ok (true, r')) :
    r.log.committed < r'.log.committed ∧
    (r.trk.cfg.voters ≠ [] → r.trk.cfg.voters.length <
      2 * Quorum.ackedAtLeast r.trk.cfg.voters (fun id => (mapGet r.trk.progress id).map (·.match_)) r'.log.committed) ∧
    (r.trk.outgoingL ≠ [] → r.trk.outgoingL.length <
      2 * Quorum.ackedAtLeast r.trk.outgoingL (fun id => (mapGet r.trk.progress id).map (·.match_)) r'.log.committed) := by
  unfold maybeCommit at h
  simp only [StateT.run_bind, StateT.run_get, P_pure_eq, P_ok_bind] at h
  cases hc : r.trk.committed with
  | none => rw [hc] at h; cases h
  | some idx =>
    rw [hc] at h
    simp only [StateT.run_bind, liftP_run] at h
    cases hm : r.log.maybeCommit { term := r.term, index := idx } with
    | error e => rw [hm] at h; cases h
    | ok p =>
      obtain ⟨l, ok⟩ := p
      rw [hm] at h
      simp only [P_ok_bind, setLog_run, StateT.run_pure, P_pure_eq, Except.ok.injEq, Prod.mk.injEq] at h
      obtain ⟨rfl, rfl⟩ := h
      unfold RaftLog.maybeCommit at hm
      split at hm
      · rename_i hcond
        obtain ⟨l', hl', hm⟩ := bind_eq_ok.1 hm
        simp only [pure, Except.pure, Except.ok.injEq, Prod.mk.injEq] at hm
        obtain ⟨rfl, _⟩ := hm
        obtain ⟨rfl, _⟩ := RaftLog.commitTo_spec hl'
        have hgt : r.log.committed < idx := by
          simp only [Bool.and_eq_true, decide_eq_true_eq] at hcond
          exact hcond.1.2
        have hmax : max r.log.committed idx = idx := by omega
        simp only [hmax]
        have hb := Quorum.joint_committed_backed _ _ _ idx hc
        exact ⟨hgt, hb.1, hb.2⟩
      · simp only [pure, Except.pure, Except.ok.injEq, Prod.mk.injEq] at hm
        cases hm.2

/-- **an election needs majorities of both voter sets**: when recording a vote makes `poll` report
`VoteWon`, a strict majority of the incoming voters and — while the configuration is joint — a strict
majority of the outgoing voters have granted their vote -/
theorem win_needs_both_majorities (id : Id) (v : Bool) (r r' : Raft)
    (h : (poll id v).run r = .ok (.won, r')) :
    r'.trk = r.trk.recordVote id v ∧
    (r.trk.cfg.voters = [] ∨ r.trk.cfg.voters.length < 2 * Quorum.yesCount r.trk.cfg.voters (mapGet r'.trk.votes)) ∧
    (r.trk.outgoingL = [] ∨ r.trk.outgoingL.length < 2 * Quorum.yesCount r.trk.outgoingL (mapGet r'.trk.votes)) := by
  unfold poll at h
  simp only [StateT.run_bind, StateT.run_modify, StateT.run_get, P_pure_eq, P_ok_bind, StateT.run_pure,
    Except.ok.injEq, Prod.mk.injEq] at h
  obtain ⟨hw, rfl⟩ := h
  refine ⟨rfl, ?_⟩
  have hcfg : (r.trk.recordVote id v).cfg = r.trk.cfg := by
    unfold Tracker.recordVote; split <;> rfl
  have : Quorum.jointVote r.trk.cfg.voters r.trk.outgoingL (mapGet (r.trk.recordVote id v).votes) = .won := by
    have := hw
    unfold Tracker.tallyVotes Tracker.outgoingL at this
    simp only [hcfg] at this
    exact this
  exact joint_quorum_covers_both _ _ _ this

/-! ## non-vacuity: concrete states -/

/-- bytes of `ConfChangeV2{Changes: [{AddNode, 2}]}` and `…[{AddNode, 3}]` -/
def ccAdd2 : Bytes := [18, 2, 16, 2]
def ccAdd3 : Bytes := [18, 2, 16, 3]
example : decodeConfChangeV2 ccAdd2 = some { changes := [{ typ := .addNode, nodeId := 2 }] } := by decide

def eCC (d : Bytes) : Entry := { typ := some .confChangeV2, data := some d }
def eN : Entry := { data := some [7] }

/-- a single-voter leader (id 1, term 1) whose log `[1]` is committed and applied -/
def exLog : RaftLog :=
  { storage := { ents := [{}, { term := 1, index := 1 }] },
    unstable := { offset := 2, offsetInProgress := 2 },
    committed := 1, applying := 1, applied := 1, maxApplyingEntsSize := 1000 }
def exLeader : Raft :=
  { cfg := { id := 1, maxUncommittedSize := 1000 }, term := 1, vote := 1, lead := 1, state := .leader,
    log := exLog,
    trk := { cfg := { voters := [1] }, maxInflight := 4,
             progress := [(1, { match_ := 1, next := 2, state := .replicate, recentActive := true,
                                inflights := { size := 4 } })] } }

example : exLog.WF := by decide

/-- the gate on a batch with two configuration changes: the first is kept (and sets `pendingConfIndex` to
its index 3), the second is neutralised, normal entries pass -/
example : gate exLeader exLeader.pendingConfIndex [eN, eCC ccAdd2, eCC ccAdd3, eN].zipIdx =
    .ok ([eN, eCC ccAdd2, { typ := some .normal }, eN], 3) := by rfl

/-- the same through `stepLeader`: entries 2–5 are appended, only index 3 is a configuration change -/
example : ((stepLeader 2 { typ := .prop, entries := [eN, eCC ccAdd2, eCC ccAdd3, eN] }).run exLeader).toOption.map
    (fun p => (p.1, p.2.pendingConfIndex, p.2.log.unstable.entries.map (fun e => (e.index, e.typ)))) =
    some (none, 3, [(2, none), (3, some .confChangeV2), (4, some .normal), (5, none)]) := by
  rw [stepLeader]; decide +kernel

/-- while that change is unapplied, a further one is neutralised (here: `pendingConfIndex = 3 > applied`) -/
example : gate exLeader 3 [eCC ccAdd3].zipIdx = .ok ([{ typ := some .normal }], 3) := by rfl

/-- a change that would remove the only voter is refused by `checkConfChange` … -/
example : exLeader.checkConfChange { changes := [{ typ := .removeNode, nodeId := 1 }] } = false := by decide
/-- … and applying it anyway panics in the Changer -/
example : (applyConfChange { changes := [{ typ := .removeNode, nodeId := 1 }] }).run exLeader =
    .error "applyConfChange: removed all voters" := by
  rw [(applyConfChange_is_changer _ exLeader).1 "removed all voters" (by rfl)]
  rfl

/-- an undecodable ConfChangeV2 payload panics -/
example : gate exLeader 0 [eCC [18]].zipIdx = .error "proto.Unmarshal ConfChangeV2 failed" := by rfl

/-- (I) holds of `exLeader` (its only entry is not a configuration change), so the hypotheses of
`at_most_one_unapplied_cc` are satisfiable, and its conclusion applies to the step above -/
theorem exLeader_inv : OwnTermCCInv exLeader := by
  have hn : ∀ i e, exLeader.log.abs.entry? i = some e → e.getType = .normal := by
    intro i e h
    have hm : e ∈ exLeader.log.abs.ents := by
      unfold ALog.entry? at h
      split at h
      · exact List.mem_of_getElem? h
      · cases h
    have : exLeader.log.abs.ents = [{ term := 1, index := 1 }] := by decide
    rw [this] at hm
    have : e = { term := 1, index := 1 } := by simpa using hm
    subst this; rfl
  exact ⟨fun i e h hc => absurd (hn i e h) hc, fun i j ei ej h _ hc => absurd (hn i ei h) hc⟩

example (r' : Raft)
    (h : (stepLeader 2 { typ := .prop, entries := [eN, eCC ccAdd2, eCC ccAdd3, eN] }).run exLeader = .ok (none, r')) :
    OwnTermCCInv r' ∧ r'.log.WF :=
  at_most_one_unapplied_cc 2 _ exLeader r' rfl (by decide) (by decide) rfl rfl (by decide) exLeader_inv h

/-- a follower (voters 1, 2) whose entry 2 — a ConfChangeV2 — is committed but not applied -/
def exLog2 : RaftLog :=
  { storage := { ents := [{}, { term := 1, index := 1 },
                          { term := 1, index := 2, typ := some .confChangeV2, data := some ccAdd3 }] },
    unstable := { offset := 3, offsetInProgress := 3 },
    committed := 2, applying := 1, applied := 1, maxApplyingEntsSize := 1000 }
def exFollower : Raft :=
  { cfg := { id := 1 }, term := 1, log := exLog2, draws := [3],
    trk := { cfg := { voters := [1, 2] }, progress := [(1, {}), (2, {})], maxInflight := 4 } }

example : exLog2.WF := by decide
theorem exFollower_unapplied : hasUnappliedConfChanges.run exFollower = .ok (true, exFollower) := by rfl
/-- it does not campaign … -/
example : (hup .election).run exFollower = .ok ((), exFollower) :=
  hup_refuses_with_unapplied_cc _ _ exFollower_unapplied
/-- … but does as soon as entry 2 is applied: term 2, candidate, one MsgVote -/
example : ((hup .election).run { exFollower with log := { exLog2 with applying := 2, applied := 2 } }).toOption.map
    (fun p => (p.2.term, p.2.state, p.2.msgs.map (·.typ))) = some (2, .candidate, [.vote]) := by decide +kernel

/-- a candidate of term 2 with last index 2 becomes leader: `pendingConfIndex = 2`, one empty entry at 3 -/
example : (becomeLeader.run { exFollower with state := .candidate, term := 2, vote := 1 }).toOption.map
    (fun p => (p.2.pendingConfIndex, p.2.state, p.2.log.unstable.entries)) =
    some (2, .leader, [{ term := 2, index := 3 }]) := by decide +kernel

/-- a follower applies "add voter 3": the configuration and the progress map are the Changer's -/
example : ((applyConfChange { changes := [{ typ := .addNode, nodeId := 3 }] }).run exFollower).toOption.map
    (fun p => (p.1.voters, p.2.trk.cfg.voters, p.2.trk.progress.map (·.1))) =
    some ([1, 2, 3], [1, 2, 3], [1, 2, 3]) := by decide +kernel

/-- a leader (id 1) in the auto-leave joint configuration `exJointCfg` (C13: voters {1,2,4}, outgoing {1,2,3},
3 staged as learner) whose enter-joint entry 2 is committed, handed out for application, `pendingConfIndex = 2` -/
def exLog5 : RaftLog :=
  { storage := { ents := [{}, { term := 1, index := 1 }, { term := 1, index := 2, typ := some .confChangeV2 }] },
    unstable := { offset := 3, offsetInProgress := 3 },
    committed := 2, applying := 2, applied := 1, maxApplyingEntsSize := 1000 }
def exTrk5 : ProgressMap :=
  [(1, { match_ := 2, next := 3, state := .replicate, recentActive := true, inflights := { size := 8 } }),
   (2, { match_ := 2, next := 3, state := .replicate, recentActive := true, inflights := { size := 8 } }),
   (3, { match_ := 2, next := 3, state := .replicate, recentActive := true, inflights := { size := 8 } }),
   (4, { match_ := 0, next := 3, recentActive := true, inflights := { size := 8 } })]
def exAuto : Raft :=
  { cfg := { id := 1, maxUncommittedSize := 1000 }, term := 1, vote := 1, lead := 1, state := .leader,
    log := exLog5, trk := { cfg := exJointCfg, progress := exTrk5, maxInflight := 8 }, pendingConfIndex := 2 }

theorem exAuto_reach : ConfReach exAuto.trk.cfg exAuto.trk.progress := by
  refine ⟨⟨(checkInvariants_iff _ _).mp (by rfl), ⟨by decide, by decide, by decide, by decide⟩,
    by decide, ?_, by decide⟩, ?_, ?_⟩
  · intro id; simp [exAuto, exJointCfg, exTrk5, keys, cfgMember]; omegaId
  · intro id hid; simp [exAuto, exJointCfg] at hid ⊢; omegaId
  · simp [exAuto, exJointCfg, cfgMember]

/-- applying entry 2 makes the leader append the empty ConfChangeV2 at index 3, set `pendingConfIndex = 3`
and send it to 2, 3 and 4 -/
example : ((appliedTo 2 2 0).run exAuto).toOption.map
    (fun p => (p.2.pendingConfIndex, p.2.log.applied, p.2.log.unstable.entries, p.2.msgs.map (fun m => (m.to, m.entries.length)))) =
    some (3, 2, [{ term := 1, index := 3, typ := some .confChangeV2 }], [(2, 1), (3, 1), (4, 1)]) := by
  rw [autoleave_proposed_result 1 2 0 exAuto _ rfl (by decide) rfl rfl (by decide) rfl rfl exAuto_reach]
  decide +kernel

/-- the hypotheses of `autoleave_proposed_result` hold of `exAuto` -/
example : ∃ l, (appliedTo 2 2 0).run exAuto =
    (do let ok ← appendEntry [{ typ := some .confChangeV2, data := none }]
        if (!ok) = true then pure () else bcastAppend : M Unit).run
      { exAuto with log := l, pendingConfIndex := l.lastIndex + 1 } :=
  ⟨_, autoleave_proposed_result 1 2 0 exAuto _ rfl (by decide) rfl rfl (by decide) rfl rfl exAuto_reach⟩

end RaftVerif.C10
