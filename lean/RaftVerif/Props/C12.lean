import RaftVerif.Proofs.Quorum
/-!
# C12  Quorum arithmetic: majority and joint decisions are exact

Property theorems only (helper lemmas live in `Proofs/Quorum.lean`).  All statements are for every
voter list (any length, no bound) and every assignment of acknowledged indexes / votes.
Voter *sets* are Go maps; a list position is a voter, so counting positions equals counting voters
whenever the list is duplicate-free (which is how the driver and the node model build them).
-/
namespace RaftVerif.Quorum

/-- number of voters of `c` whose acknowledged index (missing = 0) is at least `k` -/
def ackedAtLeast (c : List Id) (ack : Id → Option Nat) (k : Nat) : Nat :=
  c.countP (fun v => decide (k ≤ ackOr0 ack v))

/-- **C12 (a)** the computed committed index of a non-empty voter set is the largest index
acknowledged by a strict majority: a strict majority acknowledged `r`, and no larger index is
acknowledged by a strict majority. -/
theorem majority_committed_spec (c : List Id) (ack : Id → Option Nat) (hc : c ≠ []) :
    ∃ r, majorityCommitted c ack = some r ∧
      c.length < 2 * ackedAtLeast c ack r ∧
      ∀ k, r < k → 2 * ackedAtLeast c ack k ≤ c.length := by
  have hn : 0 < c.length := List.length_pos_iff.mpr hc
  have hpos : quorumPos c.length < (sortedAcks c ack).length := by
    rw [sortedAcks_length]; exact quorumPos_lt _ hn
  refine ⟨(sortedAcks c ack)[quorumPos c.length], ?_, ?_, ?_⟩
  · unfold majorityCommitted
    have : c.isEmpty = false := by cases c <;> simp_all
    simp [this, List.getD_eq_getElem?_getD, hpos]
  · have h := countP_ge_of_sorted _ (sortedAcks_sorted c ack) _ hpos
    rw [countP_sortedAcks, sortedAcks_length] at h
    unfold ackedAtLeast
    unfold quorumPos at h ⊢
    omega
  · intro k hk
    have h := countP_le_of_sorted _ (sortedAcks_sorted c ack) _ hpos k hk
    rw [countP_sortedAcks, sortedAcks_length] at h
    unfold ackedAtLeast
    unfold quorumPos at h
    omega

/-- an empty voter set imposes no constraint (`math.MaxUint64`, modelled as `none`) -/
theorem majority_committed_empty (ack : Id → Option Nat) : majorityCommitted [] ack = none := rfl

/-- the committed index is unique: any `r` with the two defining properties is the computed one -/
theorem majority_committed_unique (c : List Id) (ack : Id → Option Nat) (hc : c ≠ []) (r : Nat)
    (h1 : c.length < 2 * ackedAtLeast c ack r)
    (h2 : ∀ k, r < k → 2 * ackedAtLeast c ack k ≤ c.length) :
    majorityCommitted c ack = some r := by
  obtain ⟨r', hr', h1', h2'⟩ := majority_committed_spec c ack hc
  rw [hr']
  congr 1
  rcases Nat.lt_trichotomy r r' with h | h | h
  · have := h2 r' h; omega
  · exact h.symm
  · have := h2' r h; omega

/-- **C12 (b)** a joint configuration commits the minimum over both halves; an empty half imposes
no constraint. -/
theorem joint_committed_spec (c0 c1 : List Id) (ack : Id → Option Nat) :
    jointCommitted c0 c1 ack =
      match majorityCommitted c0 ack, majorityCommitted c1 ack with
      | none, b => b
      | a, none => a
      | some a, some b => some (min a b) := by
  unfold jointCommitted minIdx
  cases majorityCommitted c0 ack <;> cases majorityCommitted c1 ack <;> simp
  split <;> omega

theorem joint_committed_empty_right (c0 : List Id) (ack : Id → Option Nat) :
    jointCommitted c0 [] ack = majorityCommitted c0 ack := by
  unfold jointCommitted
  rw [majority_committed_empty]
  cases majorityCommitted c0 ack <;> rfl

theorem joint_committed_empty_left (c1 : List Id) (ack : Id → Option Nat) :
    jointCommitted [] c1 ack = majorityCommitted c1 ack := by
  unfold jointCommitted
  rw [majority_committed_empty]
  rfl

/-- the joint index is backed by a strict majority of *each* non-empty half -/
theorem joint_committed_backed (c0 c1 : List Id) (ack : Id → Option Nat) (r : Nat)
    (h : jointCommitted c0 c1 ack = some r) :
    (c0 ≠ [] → c0.length < 2 * ackedAtLeast c0 ack r) ∧
    (c1 ≠ [] → c1.length < 2 * ackedAtLeast c1 ack r) := by
  have mono : ∀ (c : List Id) (a b : Nat), a ≤ b → ackedAtLeast c ack b ≤ ackedAtLeast c ack a := by
    intro c a b hab
    unfold ackedAtLeast
    apply List.countP_mono_left
    intro x _ hx
    simp at *
    omega
  constructor
  · intro hc
    obtain ⟨r0, hr0, h1, _⟩ := majority_committed_spec c0 ack hc
    unfold jointCommitted at h
    rw [hr0] at h
    have : r ≤ r0 := by
      cases h1' : majorityCommitted c1 ack with
      | none => rw [h1'] at h; simp [minIdx] at h; omega
      | some b => rw [h1'] at h; simp [minIdx] at h; split at h <;> omega
    have := mono c0 r r0 this
    omega
  · intro hc
    obtain ⟨r1, hr1, h1, _⟩ := majority_committed_spec c1 ack hc
    unfold jointCommitted at h
    rw [hr1] at h
    have : r ≤ r1 := by
      cases h0' : majorityCommitted c0 ack with
      | none => rw [h0'] at h; simp [minIdx] at h; omega
      | some b => rw [h0'] at h; simp [minIdx] at h; split at h <;> omega
    have := mono c1 r r1 this
    omega

/-- **C12 (c)** vote result of one voter set: Won exactly when a strict majority said yes (an empty
set wins by convention), Lost exactly when a strict majority of yes has become impossible,
Pending otherwise. -/
theorem majority_vote_spec (c : List Id) (votes : Id → Option Bool) :
    (majorityVote c votes = .won ↔ c = [] ∨ c.length < 2 * yesCount c votes) ∧
    (majorityVote c votes = .lost ↔
        c ≠ [] ∧ 2 * (yesCount c votes + missingCount c votes) ≤ c.length) ∧
    (majorityVote c votes = .pending ↔
        c ≠ [] ∧ ¬ c.length < 2 * yesCount c votes ∧
        ¬ 2 * (yesCount c votes + missingCount c votes) ≤ c.length) := by
  unfold majorityVote quorumSize
  cases c with
  | nil => simp
  | cons a t =>
    simp only [List.isEmpty_cons, Bool.false_eq_true, ↓reduceIte, ne_eq, reduceCtorEq,
      not_false_eq_true, true_and, false_or]
    generalize yesCount (a :: t) votes = y
    generalize missingCount (a :: t) votes = m
    generalize (a :: t).length = n
    by_cases h1 : y ≥ n / 2 + 1 <;> by_cases h2 : y + m ≥ n / 2 + 1 <;> simp [h1, h2] <;> omega

/-- **C12 (d)** joint vote: Won iff both halves won, Lost iff some half lost, Pending otherwise -/
theorem joint_vote_spec (c0 c1 : List Id) (votes : Id → Option Bool) :
    (jointVote c0 c1 votes = .won ↔ majorityVote c0 votes = .won ∧ majorityVote c1 votes = .won) ∧
    (jointVote c0 c1 votes = .lost ↔ majorityVote c0 votes = .lost ∨ majorityVote c1 votes = .lost) ∧
    (jointVote c0 c1 votes = .pending ↔
      ¬ (majorityVote c0 votes = .won ∧ majorityVote c1 votes = .won) ∧
      ¬ (majorityVote c0 votes = .lost ∨ majorityVote c1 votes = .lost)) := by
  unfold jointVote
  cases majorityVote c0 votes <;> cases majorityVote c1 votes <;> simp

/-- **Quorum intersection** (used by election safety, C02/C04): two yes-majorities of the same
duplicate-free voter set share a voter. -/
theorem quorum_intersect (c : List Id) (p q : Id → Bool)
    (hp : c.length < 2 * c.countP p) (hq : c.length < 2 * c.countP q) :
    ∃ v ∈ c, p v = true ∧ q v = true := by
  have key : ∀ (l : List Id), l.countP p + l.countP q ≤ l.length + l.countP (fun v => p v && q v) := by
    intro l
    induction l with
    | nil => simp
    | cons a t ih =>
      simp only [List.countP_cons, List.length_cons]
      cases p a <;> cases q a <;> simp <;> omega
  have := key c
  have hpos : 0 < c.countP (fun v => p v && q v) := by omega
  obtain ⟨v, hv, hpq⟩ := List.countP_pos_iff.mp hpos
  exact ⟨v, hv, by simpa using hpq⟩

/-- permutation invariance (shared with C19): the order in which Go happens to iterate the voter
map does not matter. -/
theorem majorityCommitted_perm (c c' : List Id) (ack : Id → Option Nat) (h : c.Perm c') :
    majorityCommitted c ack = majorityCommitted c' ack := by
  by_cases hc : c = []
  · subst hc; have := h.length_eq; cases c' <;> simp_all
  · have hc' : c' ≠ [] := by
      intro h'; subst h'; exact hc (List.perm_nil.mp h)
    obtain ⟨r, hr, h1, h2⟩ := majority_committed_spec c ack hc
    rw [hr]
    symm
    apply majority_committed_unique c' ack hc' r
    · unfold ackedAtLeast at *; rw [← h.countP_eq, ← h.length_eq]; exact h1
    · intro k hk; unfold ackedAtLeast at *; rw [← h.countP_eq, ← h.length_eq]; exact h2 k hk

theorem majorityVote_perm (c c' : List Id) (votes : Id → Option Bool) (h : c.Perm c') :
    majorityVote c votes = majorityVote c' votes := by
  unfold majorityVote yesCount missingCount
  have e : c.isEmpty = c'.isEmpty := by
    have := h.length_eq; cases c <;> cases c' <;> simp_all
  rw [e, h.countP_eq, h.countP_eq, h.length_eq]

/-! ### non-vacuity: concrete instances -/
example : majorityCommitted [1, 2, 3] (lookup [(1, 5), (2, 3)]) = some 3 := by decide
example : majorityCommitted [1, 2, 3, 4] (lookup [(1, 5), (2, 3), (4, 9)]) = some 3 := by decide
example : jointCommitted [1, 2, 3] [3, 4, 5] (lookup [(1, 5), (2, 3), (3, 7), (4, 1)]) = some 1 := by decide
example : majorityVote [1, 2, 3] (lookup [(1, true), (2, false)]) = .pending := by decide
example : jointVote [1, 2, 3] [4] (lookup [(1, true), (2, true)]) = .pending := by decide
example : jointVote [1, 2, 3] [4] (lookup [(1, true), (2, true), (4, false)]) = .lost := by decide

end RaftVerif.Quorum
