import RaftVerif.Props.SimulationApply
import RaftVerif.Props.SimulationExample
/-!
# Props/SimulationApplyExample — non-vacuity of `Props/SimulationApply.lean`

On the schedule `Simulation.ops`: after its first 14 operations (cluster `cA`) the next round of the leader, node 1,
hands the proposal `[7]` (index 2) to the application; after 16 operations (cluster `cB`, two environment steps later)
the next round of the follower, node 2, hands out index 2 as well.  The facts about the concrete clusters come from
kernel evaluation; the agreement of the two entries comes from `cluster_applied_entries_agree_later`, and the
majority of stored votes from `cluster_leader_elected_by_stored_votes`.
-/
namespace RaftVerif.SimCor
open Sim Refine Simulation SimCorP

/-- what the next round of node `n` (without draws) hands to the application -/
def handedWith (F : NodeFns) (c : Cluster) (n : Nat) : Option (List Entry) :=
  match c.nodes n with
  | some rn =>
    match F.sync rn [] with
    | .ok (rd, _) => some rd.committedEntries
    | .error _ => none
  | none => none

/-- the proposal of the example -/
def exEnt2 : Entry := { term := 1, index := 2, data := some [7] }

def opsA : List EnvOp := ops.take 14
def opsB : List EnvOp := (ops.drop 14).take 2

theorem runOps_reaches {c c' : Cluster} {xs : List EnvOp} (h : runOps c xs = some c') : Reaches c c' := by
  induction xs generalizing c with
  | nil => simp only [runOps_nil, Option.some.injEq] at h; subst h; exact .refl
  | cons op xs ih =>
    rw [runOps_cons] at h
    cases h1 : runOp c op with
    | none => rw [h1] at h; cases h
    | some c1 =>
      rw [h1] at h
      exact (Reaches.step .refl (runOp_step h1)).trans (ih h)

/-- kernel evaluation -/
theorem example_handed_eval :
    ((runOps c0 opsA).bind fun c => handedWith modelFns c 1) = some [exEnt2] ∧
    ((runOps c0 (opsA ++ opsB)).bind fun c => handedWith modelFns c 2) = some [exEnt2] ∧
    ((runOps c0 opsA).bind fun c => (c.nodes 1).map fun rn => (rn.raft.state, rn.raft.term)) =
      some (.leader, 1) := by
  rw [← runOpsK_eq, ← runOpsK_eq, kFns_eq]; decide +kernel

theorem handed_elim {c : Cluster} {n : Nat} {l : List Entry} (h : handedWith modelFns c n = some l) :
    ∃ rn rn' rd, c.nodes n = some rn ∧ syncRound rn [] = .ok (rd, rn') ∧ rd.committedEntries = l := by
  unfold handedWith at h
  cases hn : c.nodes n with
  | none => rw [hn] at h; cases h
  | some rn =>
    rw [hn] at h
    simp only [modelFns] at h
    cases hr : syncRound rn [] with
    | error e => rw [hr] at h; cases h
    | ok p =>
      obtain ⟨rd, rn'⟩ := p
      rw [hr] at h
      exact ⟨rn, rn', rd, rfl, hr, Option.some.inj h⟩

theorem bind_elim {α β : Type} {o : Option α} {f : α → Option β} {b : β} (h : o.bind f = some b) :
    ∃ a, o = some a ∧ f a = some b := by
  cases o with
  | none => cases h
  | some a => exact ⟨a, rfl, h⟩

/-- **the hypotheses of the theorems of `Props/SimulationApply.lean` are satisfiable, with non-empty hand-outs**:
`cA` is reachable, `cB` is reached from it; the next round of node 1 in `cA` hands out `e` and the next round of
node 2 in `cB` hands out `e'`, both at index 2, `e` carrying the payload `[7]`; node 1 is the leader of term 1 in
`cA`.  The last three conjuncts come from `cluster_applied_entries_agree_later`, `sync_hands_out_committed_log` and
`cluster_leader_elected_by_stored_votes`, not from evaluation. -/
theorem example_applied : ∃ (cA cB : Cluster) (ra ra' rb rb' : RawNode) (rda rdb : Ready) (e e' : Entry),
    CReachable c0 cA ∧ Reaches cA cB ∧ cA.nodes 1 = some ra ∧ cB.nodes 2 = some rb ∧
    syncRound ra [] = .ok (rda, ra') ∧ syncRound rb [] = .ok (rdb, rb') ∧
    e ∈ rda.committedEntries ∧ e' ∈ rdb.committedEntries ∧ e.index = 2 ∧ e'.index = 2 ∧ e.data = some [7] ∧
    ra.raft.state = .leader ∧ ra.raft.term = 1 ∧
    (e.term = e'.term ∧ e.typ = e'.typ ∧ e.data = e'.data) ∧
    (e.index ≤ ra.raft.log.committed ∧ ra.raft.log.abs.ents[e.index - 1]? = some e) ∧
    (∃ q : List Nat, q.Sublist [1, 2, 3] ∧ [1, 2, 3].length < 2 * q.length ∧
      ∀ v ∈ q, ∀ rv, cA.nodes v = some rv →
        (rv.raft.log.storage.hardState.getD {}).term > 1 ∨
          ((rv.raft.log.storage.hardState.getD {}).term = 1 ∧
            (rv.raft.log.storage.hardState.getD {}).vote = 1)) := by
  obtain ⟨h1, h2, h3⟩ := example_handed_eval
  obtain ⟨cA, hA, h1⟩ := bind_elim h1
  rw [runOps_append, hA] at h2
  change ((runOps cA opsB).bind fun c => handedWith modelFns c 2) = some [exEnt2] at h2
  obtain ⟨cB, hB, h2⟩ := bind_elim h2
  rw [hA] at h3
  obtain ⟨ra0, hra0, hv⟩ := of_map_eq h3
  obtain ⟨ra, ra', rda, ha, hra, hea⟩ := handed_elim h1
  obtain ⟨rb, rb', rdb, hb, hrb, heb⟩ := handed_elim h2
  have e0 : ra = ra0 := Option.some.inj (ha.symm.trans hra0)
  subst e0
  simp only [Prod.mk.injEq] at hv
  have hr : CReachable c0 cA := runOps_reachable .init hA
  have hreach : Reaches cA cB := runOps_reaches hB
  have hma : exEnt2 ∈ rda.committedEntries := by rw [hea]; exact List.mem_singleton.mpr rfl
  have hmb : exEnt2 ∈ rdb.committedEntries := by rw [heb]; exact List.mem_singleton.mpr rfl
  have hs : ([1, 2, 3] : List Id).Pairwise (· < ·) := by decide
  have hz : 0 ∉ ([1, 2, 3] : List Id) := by decide
  have hn : ([1, 2, 3] : List Id) ≠ [] := by decide
  have k1 := cluster_applied_entries_agree_later hs hz hn c0_init hr hreach ha hb hra hrb hma hmb rfl
  have k2 := sync_hands_out_committed_log hs hz hn c0_init hr ha hra hma
  have k3 := cluster_leader_elected_by_stored_votes hs hz hn c0_init hr ha hv.1
  rw [hv.2] at k3
  exact ⟨cA, cB, ra, ra', rb, rb', rda, rdb, exEnt2, exEnt2, hr, hreach, ha, hb, hra, hrb, hma, hmb, rfl, rfl, rfl,
    hv.1, hv.2, k1, ⟨k2.2.2.1, k2.2.2.2⟩, k3⟩

end RaftVerif.SimCor
