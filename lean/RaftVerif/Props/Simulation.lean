import RaftVerif.Proofs.SimAllD
import RaftVerif.Proofs.SimRaw
import RaftVerif.Proofs.SimSafety
/-!
# Props/Simulation — a cluster of model nodes simulates the abstract protocol

Property theorems only (machinery: `Proofs/Sim*.lean`).

**Setting.**  `Sim.Cluster` = a partial map from node ids to `RawNode`s (the *unchanged* model of
`Model/RawNode.lean`: `RawNode.step`, `tick`, `campaign`, `propose`, `ready`, `advance`, `new`; a node's
`MemoryStorage` is `raft.log.storage`) and a network `net : List Message` from which nothing is ever removed (loss,
duplication and reordering are free).  The environment steps are `EnvStep` below.

`Sim.RSD val voters c s` relates a cluster to a Spec state `s` (`val` = payload encoding, a parameter; `voters` = the
static membership; the Spec configuration is `Sim.cfgOf voters = Spec.jointCfg voters []`): `s` is reachable; every
node satisfies `Sim.NodeInv` — sync mode, last `Ready` advanced, and the node-local invariant `Sim.RaftInv`, which
contains the **restrictions of this theorem** as fields of `Sim.RaftStatic`: static membership `voters`, no learners,
no joint configuration, no PreVote, no leadership transfer (CheckQuorum is free, per node), no ReadIndex, and an uncompacted log (no
snapshots) —; the auxiliary model invariants `Sim.AuxInv`, `Sim.Settled`, `Sim.MaaProm`; the durable Spec version
describes the node's storage (`Sim.DurInv`); vote requests are covered by the durable term or still queued
(`Sim.CampInv`); and every network message is justified by the Spec soup (`Sim.NetOK`, `Sim.NetFrom`).

**CheckQuorum** (`cfg.checkQuorum`, free per node — the hypothesis `checkQuorum = false` of the first version is
lifted): (a) the leader's election-timeout tick steps `MsgCheckQuorum`: without an active quorum the leader becomes a
follower of its own term — Spec `stepDown` —, otherwise (and afterwards) the `recentActive` flags are cleared, which
the relation does not see (`Sim.RaftInv.clearRA`); (b) a MsgVote of a higher term inside the leader lease is ignored
(no Spec action, `Sim.raises_or_lease`); (c) a MsgApp / MsgHeartbeat of a lower term is answered by an empty
MsgAppResp of the node's own term (`Sim.staleResp`, queued behind the storage write like every MsgAppResp; it is no
promise: `index = 0`), whose delivery deposes the stale leader — Spec `updateTerm` — (`Sim.lower_term_cases`).  A
leader that stepped down in its own term may still hold its own acknowledgements of that term: they are never counted
(`Sim.SelfOK`, `Sim.AuxFrame.fol`).

**Restrictions on the environment** (visible in `EnvStep`): only the six message kinds of `Sim.Deliverable` (MsgVote,
MsgVoteResp, MsgApp, MsgAppResp, MsgHeartbeat, MsgHeartbeatResp) and forwarded MsgProp are delivered — no MsgSnap,
MsgTimeoutNow, MsgReadIndex, MsgPreVote; `Ready`/persist/`Advance` is one atomic step (`Sim.syncRound`); a crash (with
immediate restart from the node's own storage) is possible between any two steps of a node whose `msgs` queue holds no
MsgVote, i.e. not between a campaign and the next `syncRound` (see `EnvStep.crash`).
-/
namespace RaftVerif.Simulation
open Sim Refine

/-- message kinds whose delivery is covered: the six kinds of `Sim.Deliverable` and forwarded proposals -/
def Covered (t : MsgType) : Prop := Deliverable t ∨ t = .prop

/-- **environment steps** of a cluster of model nodes -/
inductive EnvStep (c : Cluster) : Cluster → Prop where
  /-- any message of the network addressed to a live node is stepped into it (`RawNode.Step`); it stays in the
  network -/
  | deliver (n : Nat) (rn rn' : RawNode) (draws : List Nat) (m : Message) (e : Option ApiErr) :
      c.nodes n = some rn → m ∈ c.net → m.to = n → Covered m.typ →
      rn.step draws m = .ok (e, rn') → EnvStep c (c.setNode n rn')
  /-- `RawNode.Tick` -/
  | tick (n : Nat) (rn rn' : RawNode) (draws : List Nat) :
      c.nodes n = some rn → rn.tick draws = .ok rn' → EnvStep c (c.setNode n rn')
  /-- `RawNode.Propose` (a normal entry with payload `data`) -/
  | propose (n : Nat) (rn rn' : RawNode) (draws : List Nat) (data : Option Bytes) (e : Option ApiErr) :
      c.nodes n = some rn → rn.propose draws data = .ok (e, rn') → EnvStep c (c.setNode n rn')
  /-- one iteration of the application loop in sync mode: `Ready`; the entries and the hard state of the `Ready` are
  persisted into the node's storage; its messages are handed to the network; `Advance` -/
  | sync (n : Nat) (rn rn' : RawNode) (draws : List Nat) (rd : Ready) :
      c.nodes n = some rn → syncRound rn draws = .ok (rd, rn') →
      EnvStep c { (c.setNode n rn') with net := c.net ++ rd.messages }
  /-- `RawNode.Campaign` -/
  | campaign (n : Nat) (rn rn' : RawNode) (draws : List Nat) (e : Option ApiErr) :
      c.nodes n = some rn → rn.campaign draws = .ok (e, rn') → EnvStep c (c.setNode n rn')
  /-- **crash and restart**: all volatile state is lost; the node is rebuilt by `RawNode.new` from its own storage
  (with a configuration that again switches PreVote and async storage writes off; CheckQuorum is free).  Restriction: no
  vote request of the node is waiting in `msgs` (a crash between a campaign and the next `syncRound` is not
  covered: see STATUS.md, "reqVote"). -/
  | crash (n : Nat) (rn rn' : RawNode) (cfg : Config) (draws : List Nat) :
      c.nodes n = some rn → (∀ m ∈ rn.raft.msgs, m.typ ≠ .vote) →
      cfg.id = n → cfg.preVote = false → cfg.asyncStorageWrites = false →
      cfg.applied = 0 → RawNode.new cfg rn.raft.log.storage draws = .ok rn' → EnvStep c (c.setNode n rn')

theorem netOK_term_ne {val : Val} {msgs : List Spec.Msg} {m : Message} (hc : Deliverable m.typ)
    (h : NetOK val msgs m) : m.term ≠ 0 := by
  unfold NetOK at h
  rcases hc with hc | hc | hc | hc | hc | hc <;> (simp only [hc] at h; exact h.1)

/-- a network message addressed to `n` that could be confused with a node's own message does not come from `n` -/
theorem covered_from_ne {val : Val} {msgs : List Spec.Msg} {m : Message} {n : Nat}
    (hto : m.to = n) (h : NetOK val msgs m) (hf : NetFrom m)
    (hk : m.typ = .vote ∨ m.typ = .app ∨ m.typ = .appResp ∨ m.typ = .heartbeat ∨ m.typ = .voteResp) :
    m.from ≠ n := by
  rw [← hto]
  unfold NetOK at h
  rcases hk with hc | hc | hc | hc | hc
  · exact hf (Or.inr (Or.inr hc))
  · exact hf (Or.inl hc)
  · simp only [hc] at h; exact h.2.1
  · exact hf (Or.inr (Or.inl hc))
  · simp only [hc] at h; exact h.2.1

theorem covered_sameTerm {val : Val} {voters : List Id} {n : Nat} {m : Message} {e : Option StepErr}
    {r' : Raft} {fuel : Nat} {msgs : List Spec.Msg} (hc : Deliverable m.typ) (hto : m.to = n)
    (hnet : NetOK val msgs m) (hf : NetFrom m) : SameTermOK2 val voters n m e r' fuel := by
  rcases hc with hc | hc | hc | hc | hc | hc
  · exact sameTerm2_vote hc hto
  · exact sameTerm2_voteResp hc
  · exact sameTerm2_app hc (covered_from_ne hto hnet hf (Or.inr (Or.inl hc)))
  · exact sameTerm2_appResp hc
  · exact sameTerm2_hb hc hto (covered_from_ne hto hnet hf (Or.inr (Or.inr (Or.inr (Or.inl hc)))))
  · exact sameTerm2_hbResp hc

/-- replacing a node by itself -/
theorem setNode_self {c : Cluster} {n : Nat} {rn : RawNode} (hn : c.nodes n = some rn) : c.setNode n rn = c := by
  cases c with
  | mk nodes net =>
    simp only [Cluster.setNode, Cluster.mk.injEq, and_true]
    funext k
    by_cases hk : k = n
    · subst hk; simpa using hn.symm
    · simp [hk]

/-- supplying draws keeps the auxiliary invariant -/
theorem aux_withDraws {n : Nat} {r : Raft} (h : AuxInv n r) (draws : List Nat) :
    AuxInv n ({ r with draws := draws } : Raft) := ⟨h.matchLe, h.self, h.outFrom⟩

/-- **Main theorem.**  Every environment step of a cluster related to a Spec state is matched by zero or more
enabled Spec actions leading to a related state.  (`voters` strictly ascending and without the id 0: that is the
form in which `restoreConf` stores the membership.) -/
theorem cluster_simulates {val : Val} {voters : List Id} {c c' : Cluster} {s : Spec.State}
    (hsorted : voters.Pairwise (· < ·)) (h0 : 0 ∉ voters)
    (hR : RSD val voters c s) (hstep : EnvStep c c') :
    ∃ s', Steps (cfgOf voters) s s' ∧ RSD val voters c' s' := by
  have hnd : voters.Nodup := hsorted.imp (fun h => Nat.ne_of_lt h)
  have reach := hR.rs.ra.base.reach
  cases hstep with
  | deliver n rn rn' draws m e hn hm hto hc hrun =>
    have hnode := hR.rs.ra.base.nodes n rn hn
    have hnet := hR.rs.ra.base.net m hm
    have hnf := hR.rs.ra.netFrom m hm
    rcases step_inv hrun with rfl | ⟨e0, r', hr, rfl⟩
    · rw [setNode_self hn]; exact ⟨s, Steps.refl _ _, hR⟩
    · rcases hc with hc | hp
      · have hi := hnode.inv.withDraws draws
        have ha := aux_withDraws (hR.rs.ra.aux n rn hn) draws
        have hset0 : Settled ({ rn.raft with draws := draws } : Raft) := hR.rs.settled n rn hn
        have hfrom : (m.typ = .voteResp ∨ m.typ = .appResp) → m.from ≠ n := fun hk =>
          covered_from_ne hto hnet hnf (by rcases hk with hk | hk <;> simp [hk])
        have hctx : m.typ = .heartbeatResp → m.context = none := by
          intro ht
          have := hnet
          unfold NetOK at this
          simp only [ht] at this
          exact this.2
        have hb := sim_by_term2 (covered_sameTerm hc hto hnet hnf) hi ha reach hc
          (netOK_term_ne hc hnet) (hnet.inOK hto) (fun hk hf => absurd hf (hfrom hk))
          (fun hk => covered_from_ne hto hnet hnf (by rcases hk with hk | hk <;> simp [hk])) hr
        have hD := simD_deliver hi reach hc (netOK_term_ne hc hnet) hto (hnet.inOK hto)
          (fun ht hf => absurd hf (hfrom (Or.inl ht))) hr
        exact hR.stepC hn hD.toC hb.2.1
          (settled_deliver hi hset0 hc (netOK_term_ne hc hnet) hctx hr)
          (maa_isPromise_step (r := { rn.raft with draws := draws }) (hR.rs.prom n rn hn) hr)
          (step_storage (r := ({ rn.raft with draws := draws } : Raft)) hr)
          (routed_msgs_sub (r := ({ rn.raft with draws := draws } : Raft)) ((Raft.step_routed' _ m _).elim hr))
      · -- a forwarded proposal (`m.term = 0`)
        have hi := hnode.inv.withDraws draws
        have ha := aux_withDraws (hR.rs.ra.aux n rn hn) draws
        have hset0 : Settled ({ rn.raft with draws := draws } : Raft) := hR.rs.settled n rn hn
        have ht0 : m.term = 0 := by
          have := hnet
          unfold NetOK at this
          simp only [hp] at this
          exact this
        exact hR.stepC hn (simD_prop' hi ha reach hp ht0 hr).toC (aux_prop hi ha hp ht0 hr).1
          (settled_prop hi hset0 hp ht0 hr)
          (maa_isPromise_step (r := { rn.raft with draws := draws }) (hR.rs.prom n rn hn) hr)
          (step_storage (r := ({ rn.raft with draws := draws } : Raft)) hr)
          (routed_msgs_sub (r := ({ rn.raft with draws := draws } : Raft)) ((Raft.step_routed' _ m _).elim hr))
  | campaign n rn rn' draws e hn hrun =>
    have hnode := hR.rs.ra.base.nodes n rn hn
    obtain ⟨e0, r', hr, rfl⟩ := rstep_inv hrun
    have hi := hnode.inv.withDraws draws
    have ha := aux_withDraws (hR.rs.ra.aux n rn hn) draws
    have hset0 : Settled ({ rn.raft with draws := draws } : Raft) := hR.rs.settled n rn hn
    exact hR.stepC hn (simC_hup hi reach rfl rfl hr) (aux_hup hi ha rfl rfl hr).1 (settled_hup hi hset0 rfl rfl hr)
      (maa_isPromise_step (r := { rn.raft with draws := draws }) (hR.rs.prom n rn hn) hr)
      (step_storage (r := ({ rn.raft with draws := draws } : Raft)) hr)
      (routed_msgs_sub (r := ({ rn.raft with draws := draws } : Raft)) ((Raft.step_routed' _ _ _).elim hr))
  | tick n rn rn' draws hn hrun =>
    have hnode := hR.rs.ra.base.nodes n rn hn
    obtain ⟨r', hr, rfl⟩ := tick_inv hrun
    have hi := hnode.inv.withDraws draws
    have ha := aux_withDraws (hR.rs.ra.aux n rn hn) draws
    have hset0 : Settled ({ rn.raft with draws := draws } : Raft) := hR.rs.settled n rn hn
    have hprom := maa_isPromise_tick (r := { rn.raft with draws := draws }) (hR.rs.prom n rn hn) hr
    have hsub := routed_msgs_sub (r := ({ rn.raft with draws := draws } : Raft)) ((Raft.tick_routed _).elim hr)
    have hsto := tick_storage (r := ({ rn.raft with draws := draws } : Raft)) hr
    by_cases hs : rn.raft.state = .leader
    · exact hR.stepC hn (simD_tick_leader hi reach hs hr).toC (aux_tick_leader hi ha hs hr).1
        (settled_tick_leader hi hset0 hs hr) hprom hsto hsub
    · exact hR.stepC hn (simC_tick_nonleader hi reach hs hr) (aux_tick_nonleader hi ha hs hr).1
        (settled_tick_nonleader hi hset0 hs hr) hprom hsto hsub
  | propose n rn rn' draws data e hn hrun =>
    have hnode := hR.rs.ra.base.nodes n rn hn
    obtain ⟨e0, r', hr, rfl⟩ := rstep_inv hrun
    have hi := hnode.inv.withDraws draws
    have ha := aux_withDraws (hR.rs.ra.aux n rn hn) draws
    have hset0 : Settled ({ rn.raft with draws := draws } : Raft) := hR.rs.settled n rn hn
    exact hR.stepC hn (simD_prop' hi ha reach rfl rfl hr).toC (aux_prop hi ha rfl rfl hr).1
      (settled_prop hi hset0 rfl rfl hr)
      (maa_isPromise_step (r := { rn.raft with draws := draws }) (hR.rs.prom n rn hn) hr)
      (step_storage (r := ({ rn.raft with draws := draws } : Raft)) hr)
      (routed_msgs_sub (r := ({ rn.raft with draws := draws } : Raft)) ((Raft.step_routed' _ _ _).elim hr))
  | sync n rn rn' draws rd hn hrun =>
    have hnode := hR.rs.ra.base.nodes n rn hn
    have hne : voters ≠ [] := List.ne_nil_of_mem hnode.inv.st.self
    obtain ⟨as, s', h1, h2, h3, h4, h5, h6, h7, h8, h9, h10⟩ :=
      sim_syncRound_D hnode (hR.rs.ra.aux n rn hn) (hR.rs.settled n rn hn) (hR.rs.prom n rn hn)
        (hR.dur n rn hn) hne hnd reach hrun
    have hcamp : CampInv n rn'.raft (s'.nodes n) s'.msgs := fun t lt li hx => Or.inl (h10 t lt li hx)
    exact ⟨s', hR.lift n rn' rd.messages as h1 h2 h3 h4 h5 h8 h6 h7 h9 hcamp⟩
  | crash n rn rn' cfg draws hn hnv hid hpv has happ hnew =>
    have hnode := hR.rs.ra.base.nodes n rn hn
    have hne : voters ≠ [] := List.ne_nil_of_mem hnode.inv.st.self
    have hcfg : (cfgOf voters).OK := Spec.jointCfg_ok voters [] hne hnd (by simp)
    have hrun : RunL (cfgOf voters) s [.crash n] (Spec.apply s (.crash n)) := .single trivial
    have hnodes : (Spec.apply s (.crash n)).nodes n =
        { s.nodes n with vol := (s.nodes n).dur, pending := [], role := .follower } := by
      simp [Spec.apply, Spec.setNode]
    have hmsgs : (Spec.apply s (.crash n)).msgs = s.msgs := rfl
    have hle : ∀ e ∈ (s.nodes n).dur.log, e.term ≤ (s.nodes n).dur.term := fun e he =>
      ((Spec.terms_monotone _ hcfg s reach n (s.nodes n).dur (by simp [Spec.versions])).2 e he).2
    have hrv : ∀ t lt li, Spec.Msg.reqVote t n lt li ∈ s.msgs → t ≤ (s.nodes n).dur.term := by
      intro t lt li hx
      rcases hR.camp n rn hn t lt li hx with h | ⟨m, hm, hmt, _⟩
      · exact h
      · exact absurd hmt (hnv m hm)
    obtain ⟨a1, a2, a3, a4, a5, a6⟩ := restart_nodeInv hnode (hR.rs.settled n rn hn) (hR.dur n rn hn) hsorted h0
      hid hpv has happ hle hrv hnew
    have hl := hR.lift n rn' [] [.crash n] hrun (by simp [Spec.Action.actor])
      (by rw [hnodes, hmsgs]; exact a1) (by simp) a2 (by simp) a3
      (by intro m hm; rw [a5] at hm; cases hm) (by rw [hnodes]; exact a6)
      (by rw [hnodes, hmsgs]; exact fun t lt li hx => Or.inl (hrv t lt li hx))
    have e : ({ (c.setNode n rn') with net := c.net ++ [] } : Cluster) = c.setNode n rn' := by
      simp [Cluster.setNode]
    rw [e] at hl
    exact ⟨_, hl⟩

/-! ## Reachable clusters -/

/-- the clusters reachable from `c0` by environment steps -/
inductive CReachable (c0 : Cluster) : Cluster → Prop where
  | init : CReachable c0 c0
  | step {c c' : Cluster} : CReachable c0 c → EnvStep c c' → CReachable c0 c'

/-- every reachable cluster is related to a reachable Spec state -/
theorem reachable_related {val : Val} {voters : List Id} {c0 c : Cluster}
    (hsorted : voters.Pairwise (· < ·)) (hv0 : 0 ∉ voters)
    (h0 : RSD val voters c0 Spec.State.init) (h : CReachable c0 c) :
    ∃ s, Spec.Reachable (cfgOf voters) s ∧ RSD val voters c s := by
  induction h with
  | init => exact ⟨_, .init, h0⟩
  | step _ hstep ih =>
    obtain ⟨s, _, hR⟩ := ih
    obtain ⟨s', _, hR'⟩ := cluster_simulates hsorted hv0 hR hstep
    exact ⟨s', hR'.rs.ra.base.reach, hR'⟩

/-- an **initial cluster** over the (sorted) voter list `voters`: the network is empty and every node is a voter
freshly built by `RawNode.new` on the empty storage bootstrapped with the membership, with a configuration that
switches PreVote and asynchronous storage writes off (`cfg.checkQuorum` is arbitrary, per node) -/
def InitCluster (voters : List Id) (c0 : Cluster) : Prop :=
  c0.net = [] ∧ ∀ n rn, c0.nodes n = some rn → n ∈ voters ∧
    ∃ (cfg : Config) (draws : List Nat), cfg.id = n ∧ cfg.preVote = false ∧
      cfg.asyncStorageWrites = false ∧ cfg.applied = 0 ∧ RawNode.new cfg (initStorage voters) draws = .ok rn

/-- the initial clusters of the first version of the theorem (CheckQuorum switched off in every node) are initial
clusters: the old statements are special cases of the present ones -/
theorem InitCluster.of_noCheckQuorum {voters : List Id} {c0 : Cluster}
    (h : c0.net = [] ∧ ∀ n rn, c0.nodes n = some rn → n ∈ voters ∧
      ∃ (cfg : Config) (draws : List Nat), cfg.id = n ∧ cfg.preVote = false ∧ cfg.checkQuorum = false ∧
        cfg.asyncStorageWrites = false ∧ cfg.applied = 0 ∧ RawNode.new cfg (initStorage voters) draws = .ok rn) :
    InitCluster voters c0 := by
  refine ⟨h.1, fun n rn hn => ?_⟩
  obtain ⟨hm, cfg, draws, a, b, _, c, d, e⟩ := h.2 n rn hn
  exact ⟨hm, cfg, draws, a, b, c, d, e⟩

/-- a freshly built node: nothing pending in `unstable`, empty promise queue, storage = the bootstrap storage -/
theorem init_extra {voters : List Id} {c : Config} {draws : List Nat} {rn : RawNode}
    (hsorted : voters.Pairwise (· < ·)) (h0 : 0 ∉ voters) (happ : c.applied = 0)
    (h : RawNode.new c (initStorage voters) draws = .ok rn) :
    Settled rn.raft ∧ MaaProm rn.raft ∧ rn.raft.log.storage = initStorage voters ∧
      rn.prevHard = RawNode.hardState rn.raft ∧ rn.raft.msgs = [] := by
  unfold RawNode.new at h
  obtain ⟨r, hr, h⟩ := bind_eq_ok.1 h
  simp only [pure, Except.pure, Except.ok.injEq] at h
  subst h
  obtain ⟨_, trk, d, rest, _, hr', _, _⟩ := newRaft_init hsorted h0 happ hr
  subst hr'
  refine ⟨⟨rfl, rfl⟩, ?_, rfl, rfl, ?_⟩
  · intro m hm
    exact absurd hm (by simp [initRaft, Next.resetSt, C14.swCfg, C14.newRaftInit])
  · simp [initRaft, Next.resetSt, C14.swCfg, C14.newRaftInit]

/-- **the initial cluster is related to the initial Spec state** -/
theorem init_related {val : Val} {voters : List Id} {c0 : Cluster} (hsorted : voters.Pairwise (· < ·))
    (h0 : 0 ∉ voters) (hc : InitCluster voters c0) : RSD val voters c0 Spec.State.init := by
  have hnd : voters.Nodup := hsorted.imp (fun h => Nat.ne_of_lt h)
  have key : ∀ n rn, c0.nodes n = some rn →
      (NodeInv val voters n rn ({} : Spec.Node) [] ∧ AuxInv n rn.raft) ∧
      (Settled rn.raft ∧ MaaProm rn.raft ∧ rn.raft.log.storage = initStorage voters ∧
        rn.prevHard = RawNode.hardState rn.raft ∧ rn.raft.msgs = []) := by
    intro n rn hn
    obtain ⟨hmem, cfg, draws, hid, hpv, has, happ, hnew⟩ := hc.2 n rn hn
    exact ⟨init_nodeInv hid hmem hnd hsorted h0 hpv has happ hnew, init_extra hsorted h0 happ hnew⟩
  refine ⟨⟨⟨⟨.init, fun n rn hn => (key n rn hn).1.1, ?_⟩, fun n rn hn => (key n rn hn).1.2, ?_⟩,
    fun n rn hn => (key n rn hn).2.1, fun n rn hn => (key n rn hn).2.2.1⟩, ?_, ?_⟩
  · intro m hm; rw [hc.1] at hm; cases hm
  · intro m hm; rw [hc.1] at hm; cases hm
  · intro n rn hn
    obtain ⟨⟨hnode, _⟩, _, _, hsto, hprev, _⟩ := key n rn hn
    have A := hnode.inv.abs
    have hhs : RawNode.hardState rn.raft = {} := by
      unfold RawNode.hardState
      rw [← A.term, ← A.vote, ← A.commit]
    exact ⟨by rw [hsto]; rfl, by rw [hsto]; rfl, by rw [hsto]; rfl, by rw [hsto]; rfl,
      by rw [hprev, hhs, hsto]; rfl, by rw [hsto]⟩
  · intro n rn hn t lt li hx
    cases hx

/-! ## Transfer of Spec safety to the cluster of model nodes -/

/-- **state-machine safety of the cluster, abstract form**: in every cluster reachable from an initial one, two nodes
never hold different (abstract) entries at an index that both have committed -/
theorem cluster_commit_agree {val : Val} {voters : List Id} {c0 c : Cluster} (hsorted : voters.Pairwise (· < ·))
    (h0 : 0 ∉ voters) (hne : voters ≠ []) (hc : InitCluster voters c0) (h : CReachable c0 c)
    {a b : Nat} {ra rb : RawNode} (ha : c.nodes a = some ra) (hb : c.nodes b = some rb) {i : Nat} (hi : 1 ≤ i)
    (h1 : i ≤ ra.raft.log.committed) (h2 : i ≤ rb.raft.log.committed) :
    (absLog val ra.raft).at? i = (absLog val rb.raft).at? i := by
  obtain ⟨s, _, hR⟩ := reachable_related hsorted h0 (init_related (val := val) hsorted h0 hc) h
  exact hR.rs.ra.base.commit_agree hne (hsorted.imp (fun h => Nat.ne_of_lt h)) ha hb hi h1 h2

/-- **state-machine safety of the cluster of model nodes**: in every cluster reachable from an initial one — by
deliveries in any order and multiplicity, ticks, proposals, campaigns, `Ready`/persist/`Advance` rounds and
crashes with restart —, if two nodes have both committed index `i`, the entries their `raftLog`s hold at `i` have
the same term, type and payload -/
theorem cluster_state_machine_safety {voters : List Id} {c0 c : Cluster} (hsorted : voters.Pairwise (· < ·))
    (h0 : 0 ∉ voters) (hne : voters ≠ []) (hc : InitCluster voters c0) (h : CReachable c0 c)
    {a b : Nat} {ra rb : RawNode} (ha : c.nodes a = some ra) (hb : c.nodes b = some rb) {i : Nat} (hi : 1 ≤ i)
    (h1 : i ≤ ra.raft.log.committed) (h2 : i ≤ rb.raft.log.committed) {e e' : Entry}
    (he : ra.raft.log.abs.ents[i - 1]? = some e) (he' : rb.raft.log.abs.ents[i - 1]? = some e') :
    e.term = e'.term ∧ e.typ = e'.typ ∧ e.data = e'.data := by
  let val : Val := fun t d => if t = e.typ ∧ d = e.data then 1 else 0
  have key := cluster_commit_agree (val := val) hsorted h0 hne hc h ha hb hi h1 h2
  have hi0 : i ≠ 0 := by omega
  simp only [Spec.Log.at?, hi0, if_false, absLog, absLogL, List.getElem?_map, he, he', Option.map_some,
    Option.some.injEq] at key
  have ht : e.term = e'.term := congrArg Spec.Ent.term key
  have hv : val e.typ e.data = val e'.typ e'.data := congrArg Spec.Ent.val key
  have hv1 : val e.typ e.data = 1 := by simp [val]
  rw [hv1] at hv
  by_cases hcond : e'.typ = e.typ ∧ e'.data = e.data
  · exact ⟨ht, hcond.1.symm, hcond.2.symm⟩
  · simp [val, hcond] at hv

/-- the other Spec theorems transfer the same way; e.g. **election safety**: two leaders of the same term in a
reachable cluster are the same node -/
theorem cluster_election_safety {voters : List Id} {c0 c : Cluster} (hsorted : voters.Pairwise (· < ·))
    (h0 : 0 ∉ voters) (hne : voters ≠ []) (hc : InitCluster voters c0) (h : CReachable c0 c)
    {a b : Nat} {ra rb : RawNode} (ha : c.nodes a = some ra) (hb : c.nodes b = some rb)
    (hla : ra.raft.state = .leader) (hlb : rb.raft.state = .leader) (ht : ra.raft.term = rb.raft.term) : a = b := by
  obtain ⟨s, hreach, hR⟩ := reachable_related hsorted h0 (init_related (val := fun _ _ => 0) hsorted h0 hc) h
  have hcfg : (cfgOf voters).OK := Spec.jointCfg_ok voters [] hne (hsorted.imp (fun h => Nat.ne_of_lt h)) (by simp)
  have A := (hR.rs.ra.base.nodes a ra ha).inv.abs
  have B := (hR.rs.ra.base.nodes b rb hb).inv.abs
  exact Spec.one_leader_per_term _ hcfg s hreach a b (by rw [A.role, hla]; rfl) (by rw [B.role, hlb]; rfl)
    (by rw [A.term, B.term, ht])

end RaftVerif.Simulation
