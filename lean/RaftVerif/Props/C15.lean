import RaftVerif.Proofs.LiveStep
import RaftVerif.Proofs.LiveTickHb
import RaftVerif.Proofs.LiveAck
import RaftVerif.Proofs.LiveStorage
import RaftVerif.Proofs.LiveHup
import RaftVerif.Proofs.LiveReady
/-!
# C15  Progress after faults stop: the escape lemmas

The end-to-end liveness statement of C15 is decided by simulation.  This file contains the *escape
lemmas*: for each mechanism the property's anchors name, from **any** state of the stuck shape the one
relevant fault-free event strictly improves a stated measure or clears the stuck flag.  Property
theorems only; helpers are in `Proofs/Live*.lean` (namespace `RaftVerif.Live`).

Statements are about plain `.run` of the model's state monad (`throw` = Go panic never yields `.ok`).
No conclusion relies on a totalised default: `usub` is guarded by `rejected + 1 = next`, truncated
subtraction never occurs in a conclusion.
-/
namespace RaftVerif.C15
open RaftVerif.Live Raft
set_option linter.unusedSimpArgs false

/-! ## 1. Progress / Inflights (tracker/progress.go, tracker/inflights.go) -/

/-- **probe_reject_makes_progress** (`MaybeDecrTo`, progress.go:226-258).  A probing follower
whose outstanding probe `rejected = Next - 1` is rejected: the rejection is accepted,
`Next` becomes exactly `max (min rejected (hint+1)) (Match+1)`, the flow is un-paused, and — when the
rejected index is above `Match` — `Next` **strictly decreases** while staying above `Match`
(the measure `Next - Match - 1 ≥ 0` strictly decreases, so probing terminates). -/
theorem probe_reject_makes_progress (pr : Progress) (rejected hint : Nat)
    (hs : pr.state = .probe) (hr : rejected + 1 = pr.next) :
    (pr.maybeDecrTo rejected hint).2 = true ∧
    (pr.maybeDecrTo rejected hint).1.next = max (min rejected (hint + 1)) (pr.match_ + 1) ∧
    (pr.maybeDecrTo rejected hint).1.match_ = pr.match_ ∧
    (pr.maybeDecrTo rejected hint).1.state = .probe ∧
    (pr.maybeDecrTo rejected hint).1.isPaused = false ∧
    (pr.match_ < rejected →
      (pr.maybeDecrTo rejected hint).1.next < pr.next ∧ pr.match_ < (pr.maybeDecrTo rejected hint).1.next) := by
  have hne : pr.state ≠ .replicate := by rw [hs]; intro h; cases h
  obtain ⟨h1, h2, h3, h4, h5, _⟩ := maybeDecrTo_nonrepl pr rejected hint hne hr
  refine ⟨h1, h2, h4, by rw [h5, hs], ?_, fun hm => maybeDecrTo_nonrepl_lt pr rejected hint hne hr hm⟩
  rw [Bool.eq_false_iff, Ne, Progress.isPaused_iff, h5, hs, h3]
  simp

/-- in `StateReplicate` a rejection above `Match` falls back to `Next = Match + 1` (the caller then moves
the follower to `StateProbe`) -/
theorem replicate_reject_falls_back (pr : Progress) (rejected hint : Nat)
    (hs : pr.state = .replicate) (hm : pr.match_ < rejected) :
    (pr.maybeDecrTo rejected hint).2 = true ∧ (pr.maybeDecrTo rejected hint).1.next = pr.match_ + 1 ∧
    (pr.maybeDecrTo rejected hint).1.match_ = pr.match_ :=
  let h := maybeDecrTo_repl pr rejected hint hs hm
  ⟨h.1, h.2.1, h.2.2.1⟩

/-- **ack_makes_progress** (`MaybeUpdate`, progress.go:205-215).  An acknowledgement of an index above
`Match`: accepted, `Match` rises strictly to `n`, `Next` stays above it, the flow is un-paused; outside
`StateSnapshot` the follower is not paused any more. -/
theorem ack_makes_progress (pr : Progress) (n : Nat) (hn : pr.match_ < n) :
    (pr.maybeUpdate n).2 = true ∧
    (pr.maybeUpdate n).1.match_ = n ∧ pr.match_ < (pr.maybeUpdate n).1.match_ ∧
    (pr.maybeUpdate n).1.next = max pr.next (n + 1) ∧ n < (pr.maybeUpdate n).1.next ∧
    (pr.maybeUpdate n).1.msgAppFlowPaused = false ∧
    (pr.maybeUpdate n).1.state = pr.state ∧
    (pr.state ≠ .snapshot → (pr.maybeUpdate n).1.isPaused = false) := by
  obtain ⟨h1, h2, h3, h4, h5, _⟩ := maybeUpdate_new pr n hn
  refine ⟨h1, h2, by omega, h3, by omega, h4, h5, fun hs => ?_⟩
  rw [Bool.eq_false_iff, Ne, Progress.isPaused_iff, h5, h4]
  simp [hs]

/-- **ack_frees_inflights** (`FreeLE`, inflights.go:91-126).  An acknowledgement `ack` that covers the
oldest inflight message `(idx, b)` frees at least that message: `count` strictly decreases, `bytes`
decreases by at least `b`, and — under the window invariant `count ≤ size` — the window is no longer full
by count: it is full only if a byte budget is set and still reached. -/
theorem ack_frees_inflights (i : Inflights) (ack idx b : Nat) (rest : List (Nat × Nat))
    (hq : i.q = (idx, b) :: rest) (hle : idx ≤ ack) (hwf : i.count ≤ i.size) :
    (i.freeLE ack).count < i.count ∧ (i.freeLE ack).bytes + b ≤ i.bytes ∧
    (i.freeLE ack).count < (i.freeLE ack).size ∧
    ((i.freeLE ack).full = true ↔ (i.maxBytes ≠ 0 ∧ i.maxBytes ≤ (i.freeLE ack).bytes)) ∧
    (i.maxBytes = 0 → (i.freeLE ack).full = false) := by
  obtain ⟨h1, h2, h3, h4⟩ := freeLE_head i ack idx b rest hq hle
  have hlt : (i.freeLE ack).count < (i.freeLE ack).size := by omega
  have hfull : (i.freeLE ack).full = true ↔ (i.maxBytes ≠ 0 ∧ i.maxBytes ≤ (i.freeLE ack).bytes) := by
    rw [Inflights.full_iff, h4]
    constructor
    · rintro (h | h)
      · omega
      · exact h
    · exact Or.inr
  refine ⟨h1, h2, hlt, hfull, fun h0 => ?_⟩
  rw [Bool.eq_false_iff, Ne, hfull]
  simp [h0]

/-! non-vacuity: a probing follower `Match = 2, Next = 8`, rejection of 7 with hint 4 → `Next = 5` -/
example : (({ match_ := 2, next := 8 } : Progress).maybeDecrTo 7 4).1.next = 5 := by decide
example : ((({ match_ := 2, next := 8, msgAppFlowPaused := true } : Progress).maybeUpdate 6).1.match_,
    (({ match_ := 2, next := 8, msgAppFlowPaused := true } : Progress).maybeUpdate 6).1.isPaused) = (6, false) := by
  decide
example : ((({ size := 2, q := [(5, 8), (6, 7)] } : Inflights).full),
    (({ size := 2, q := [(5, 8), (6, 7)] } : Inflights).freeLE 5).full) = (true, false) := by decide

/-! ## 1b. the same events as handled by a leader (`Step` → `stepLeader`, raft.go:1470-1640)

All statements are about `Raft.step` of a leader for a message that is local (`term = 0`) or carries the
leader's own term, from a peer with `Progress` `pr`. -/

/-- **snap_status_resumes_probe** (`MsgSnapStatus`, raft.go:1611-1631).  For a follower in `StateSnapshot`
the report — success or failure — always succeeds, changes nothing but that follower's progress, and
leaves it in `StateProbe`, paused (until the next `MsgHeartbeatResp`, see `heartbeat_resp_unpauses`),
with `PendingSnapshot = 0` and `Next = max (Match+1) (PendingSnapshot+1)` on success, `Next = Match+1`
on failure. -/
theorem snap_status_resumes_probe (fuel : Nat) (m : Message) (r : Raft) (pr : Progress)
    (hs : r.state = .leader) (hterm : m.term = 0 ∨ m.term = r.term)
    (hm : m.typ = .snapStatus) (hg : r.trk.getProgress m.from = some pr) (hsn : pr.state = .snapshot) :
    ∃ pr', (Raft.step (fuel + 1) m).run r = .ok (none, { r with trk := r.trk.setProgress m.from pr' }) ∧
      pr'.state = .probe ∧ pr'.isPaused = true ∧ pr'.match_ = pr.match_ ∧ pr'.pendingSnapshot = 0 ∧
      pr'.recentActive = pr.recentActive ∧ pr.match_ < pr'.next ∧
      (m.reject = false → pr'.next = max (pr.match_ + 1) (pr.pendingSnapshot + 1)) ∧
      (m.reject = true → pr'.next = pr.match_ + 1) := by
  obtain ⟨h1, h2, _, h4, h5, h6, _, h8, h9, h10⟩ := snapResume_spec pr m.reject hsn
  refine ⟨snapResume pr m.reject, ?_, h1, h2, h4, h5, h6, h10, h8, h9⟩
  rw [step_leader_dispatch fuel m r hs hterm (by simp [hm]), stepLeader_snapStatus_run fuel m r pr hm hg,
    if_pos hsn]

/-- **unreachable_leaves_replicate** (`MsgUnreachable`, raft.go:1632-1639).  A streaming follower reported
unreachable falls back to `StateProbe`: un-paused, empty inflight window, `Next = Match + 1`; nothing else
changes.  (In any other state the report is a no-op.) -/
theorem unreachable_leaves_replicate (fuel : Nat) (m : Message) (r : Raft) (pr : Progress)
    (hs : r.state = .leader) (hterm : m.term = 0 ∨ m.term = r.term)
    (hm : m.typ = .unreachable) (hg : r.trk.getProgress m.from = some pr) :
    (pr.state = .replicate →
      (Raft.step (fuel + 1) m).run r = .ok (none, { r with trk := r.trk.setProgress m.from pr.becomeProbe }) ∧
      pr.becomeProbe.state = .probe ∧ pr.becomeProbe.isPaused = false ∧ pr.becomeProbe.match_ = pr.match_ ∧
      pr.becomeProbe.next = pr.match_ + 1 ∧ pr.becomeProbe.inflights.count = 0) ∧
    (pr.state ≠ .replicate → (Raft.step (fuel + 1) m).run r = .ok (none, r)) := by
  have hrun := stepLeader_unreachable_run fuel m r pr hm hg
  rw [← step_leader_dispatch fuel m r hs hterm (by simp [hm])] at hrun
  constructor
  · intro hrep
    obtain ⟨_, h2, h3, h4, h5, _, _, h8, _⟩ := Progress.becomeProbe_spec pr
    refine ⟨by rw [hrun, if_pos hrep], h2, h3, h4, h8 (by rw [hrep]; intro h; cases h), h5⟩
  · intro hn
    rw [hrun, if_neg hn]

/-- **heartbeat_resp_unpauses** (`MsgHeartbeatResp`, raft.go:1579-1598).  Whatever the follower's state,
after the step it is `RecentActive`, its `Match` is unchanged, and
* if no append is due (`¬ (Match < lastIndex ∨ state = probe)`) its progress is exactly the old one with
  `RecentActive := true, MsgAppFlowPaused := false`, and only `MsgReadIndexResp`s were queued;
* if an append is due and the follower is not waiting for a snapshot, exactly one `MsgApp` (or, when the
  log is compacted, `MsgSnap`) addressed to it is queued — even an empty one, even with a full inflight
  window — followed only by `MsgReadIndexResp`s;
* a follower waiting for a snapshot gets nothing (it is released by `MsgSnapStatus` or a catching-up
  `MsgAppResp`, see `snap_status_resumes_probe`, `appresp_recovers_from_snapshot`). -/
theorem heartbeat_resp_unpauses (fuel : Nat) (m : Message) (r r' : Raft) (res : Option StepErr) (pr : Progress)
    (hs : r.state = .leader) (hterm : m.term = 0 ∨ m.term = r.term)
    (hm : m.typ = .heartbeatResp) (hg : r.trk.getProgress m.from = some pr)
    (h : (Raft.step (fuel + 1) m).run r = .ok (res, r')) :
    res = none ∧
    (∃ pr', r'.trk.getProgress m.from = some pr' ∧ pr'.recentActive = true ∧ pr'.match_ = pr.match_) ∧
    (¬ (pr.match_ < r.log.lastIndex ∨ pr.state = .probe) →
      r'.trk.getProgress m.from = some { pr with recentActive := true, msgAppFlowPaused := false } ∧
      ∃ extra, r'.msgs = r.msgs ++ extra ∧ ∀ x ∈ extra, x.typ = .readIndexResp) ∧
    ((pr.match_ < r.log.lastIndex ∨ pr.state = .probe) → pr.state ≠ .snapshot →
      ∃ x extra, r'.msgs = r.msgs ++ x :: extra ∧ x.to = m.from ∧ (x.typ = .app ∨ x.typ = .snap) ∧
        ∀ y ∈ extra, y.typ = .readIndexResp) ∧
    (pr.state = .snapshot →
      r'.trk.getProgress m.from = some { pr with recentActive := true, msgAppFlowPaused := false } ∧
      ∃ extra, r'.msgs = r.msgs ++ extra ∧ ∀ x ∈ extra, x.typ = .readIndexResp) := by
  rw [step_leader_dispatch fuel m r hs hterm (by simp [hm])] at h
  obtain ⟨hres, r2, hro, hyes, hno⟩ := stepLeader_heartbeatResp_inv fuel m r r' res pr hm hg h
  obtain ⟨extra, hmsgs, hextra⟩ := hro.msgs
  have hgm : (hbMid r m pr).trk.getProgress m.from =
      some { pr with recentActive := true, msgAppFlowPaused := false } := by
    simp [hbMid, getProgress_setProgress]
  refine ⟨hres, ?_, ?_, ?_, ?_⟩
  · rw [hro.trk]
    by_cases hc : pr.match_ < r.log.lastIndex ∨ pr.state = .probe
    · obtain ⟨b, hb⟩ := hyes hc
      obtain ⟨_, _, hk⟩ := (maybeSendAppend_pk m.from true (hbMid r m pr)).elim hb
      obtain ⟨pr', hg', e1, e2, _, _⟩ := (hk m.from).2 _ hgm
      exact ⟨pr', hg', e2, e1⟩
    · rw [hno hc]; exact ⟨_, hgm, rfl, rfl⟩
  · intro hc
    rw [hro.trk, hno hc] at *
    exact ⟨hgm, extra, hmsgs, hextra⟩
  · intro hc hsn
    obtain ⟨b, hb⟩ := hyes hc
    have hp : ({ pr with recentActive := true, msgAppFlowPaused := false } : Progress).isPaused = false := by
      rw [Bool.eq_false_iff, Ne, Progress.isPaused_iff]
      simp [hsn]
    obtain ⟨x, hx, hto, hty⟩ := maybeSendAppend_sends_msg m.from (hbMid r m pr) r2 b _ hgm hp rfl hb
    refine ⟨x, extra, ?_, hto, hty, hextra⟩
    rw [hmsgs, hx]
    simp [hbMid]
  · intro hsn
    have hr2 : r2 = hbMid r m pr := by
      by_cases hc : pr.match_ < r.log.lastIndex ∨ pr.state = .probe
      · obtain ⟨b, hb⟩ := hyes hc
        rw [maybeSendAppend_snapshot_pending m.from true (hbMid r m pr) _ hgm hsn] at hb
        injection hb with hb; injection hb with _ hb; exact hb.symm
      · exact hno hc
    subst hr2
    exact ⟨by rw [hro.trk]; exact hgm, extra, hmsgs, hextra⟩

/-! ## 1c. `MsgAppResp` at the leader (raft.go:1470-1578) -/

/-- **probe_reject_reprobes**.  A leader that receives the rejection of the outstanding probe
(`m.Index = Next - 1`) of a probing follower lowers `Next` as in `probe_reject_makes_progress` and
**immediately sends the next probe**: exactly one `MsgApp` (or `MsgSnap` if the log is compacted there)
for that follower is queued; afterwards the follower is still probing with the lowered `Next`, or waits
for the snapshot just sent. -/
theorem probe_reject_reprobes (fuel : Nat) (m : Message) (r r' : Raft) (res : Option StepErr) (pr : Progress)
    (hs : r.state = .leader) (hterm : m.term = 0 ∨ m.term = r.term)
    (hm : m.typ = .appResp) (hg : r.trk.getProgress m.from = some pr) (hrej : m.reject = true)
    (hpr : pr.state = .probe) (hidx : m.index + 1 = pr.next)
    (h : (Raft.step (fuel + 1) m).run r = .ok (res, r')) :
    res = none ∧
    (∃ x, r'.msgs = r.msgs ++ [x] ∧ x.to = m.from ∧ (x.typ = .app ∨ x.typ = .snap)) ∧
    ∃ pr', r'.trk.getProgress m.from = some pr' ∧ pr'.match_ = pr.match_ ∧ pr'.recentActive = true ∧
      ((pr'.state = .probe ∧ pr'.next = max (min m.index (probeHint r m + 1)) (pr.match_ + 1)) ∨
       pr'.state = .snapshot) := by
  rw [step_leader_dispatch fuel m r hs hterm (by simp [hm]),
    stepLeader_appResp_reject_run fuel m r pr hm hg hrej] at h
  have hne : ({ pr with recentActive := true } : Progress).state ≠ .replicate := by
    show pr.state ≠ .replicate
    rw [hpr]; intro h; cases h
  obtain ⟨d1, d2, d3, d4, d5, _, d7, _⟩ :=
    maybeDecrTo_nonrepl ({ pr with recentActive := true } : Progress) m.index (probeHint r m) hne hidx
  rw [if_pos d1] at h
  obtain ⟨p, hp, h'⟩ := bind_eq_ok.1 h
  injection h' with h'; injection h' with e1 e2; subst e2
  obtain ⟨b, r2⟩ := p
  have hst : (afterReject pr m.index (probeHint r m)).state = .probe ∧
      (afterReject pr m.index (probeHint r m)).next = max (min m.index (probeHint r m + 1)) (pr.match_ + 1) ∧
      (afterReject pr m.index (probeHint r m)).msgAppFlowPaused = false ∧
      (afterReject pr m.index (probeHint r m)).match_ = pr.match_ ∧
      (afterReject pr m.index (probeHint r m)).recentActive = true := by
    unfold afterReject
    have hd5 : ((({ pr with recentActive := true } : Progress).maybeDecrTo m.index (probeHint r m)).1.state ==
        ProgressState.replicate) = false := by
      rw [d5]; show (pr.state == ProgressState.replicate) = false; simp [hpr]
    rw [if_neg (by rw [hd5]; simp)]
    exact ⟨d5.trans hpr, d2, d3, d4, d7⟩
  obtain ⟨k1, k2, k3, k4, k5⟩ := hst
  have hgD : ({ r with trk := r.trk.setProgress m.from (afterReject pr m.index (probeHint r m)) } : Raft).trk.getProgress
      m.from = some (afterReject pr m.index (probeHint r m)) := by
    simp [getProgress_setProgress]
  have hpa : (afterReject pr m.index (probeHint r m)).isPaused = false := by
    rw [Bool.eq_false_iff, Ne, Progress.isPaused_iff, k1, k3]; simp
  have hx := maybeSendAppend_sends_msg m.from
    { r with trk := r.trk.setProgress m.from (afterReject pr m.index (probeHint r m)) } r2 b _ hgD hpa k5 hp
  refine ⟨e1.symm, hx, ?_⟩
  obtain ⟨pr0, hg0, c1 | ⟨_, _, _, c2⟩ | ⟨_, _, _, pt, ents, pr'', _, _, _, _, hsent, c3⟩⟩ :=
    maybeSendAppend_outcome m.from true _ r2 b hp
  · rw [c1.2]
    exact ⟨_, hgD, k4, k5, Or.inl ⟨k1, k2⟩⟩
  · rw [hgD] at hg0; injection hg0 with hg0; subst hg0
    subst c2
    refine ⟨(afterReject pr m.index (probeHint r m)).becomeSnapshot r.log.snapshot.index,
      by simp [afterSnap, getProgress_setProgress], ?_, ?_, Or.inr ?_⟩
    · exact ((Progress.becomeSnapshot_spec _ _).2.2.2.2.2.1).trans k4
    · exact k5
    · exact (Progress.becomeSnapshot_spec _ _).1
  · rw [hgD] at hg0; injection hg0 with hg0; subst hg0
    subst c3
    obtain ⟨s1, s2, s3, s4, _⟩ := Progress.sentEntries_probe_spec _ pr'' _ _ k1 hsent
    obtain ⟨t1, t2, _, _⟩ := sentEntries_keeps _ pr'' _ _ hsent
    refine ⟨{ pr'' with sentCommit := r.log.committed }, by simp [afterApp, getProgress_setProgress], ?_, ?_,
      Or.inl ⟨s4, ?_⟩⟩
    · exact s3.trans k4
    · exact t2.trans k5
    · exact s2.trans k2

/-- **ack_advances_match**.  A leader that receives the acknowledgement of an index above `Match` from a
peer ends the step with that peer's `Match` raised to exactly `m.Index` and `RecentActive` set, and —
depending on the state the peer was in —
* probing → streaming (`StateReplicate`),
* streaming → still streaming (inflights up to `m.Index` were freed, see `ack_frees_inflights`),
* waiting for a snapshot, and `Match + 1 ≥ firstIndex` now → streaming (`appresp_recovers_from_snapshot`),
unless the appends sent in the same step hit a compacted log, in which case the peer is in
`StateSnapshot` and the `MsgSnap` for it has just been queued. -/
theorem ack_advances_match (fuel : Nat) (m : Message) (r r' : Raft) (res : Option StepErr) (pr : Progress)
    (hs : r.state = .leader) (hterm : m.term = 0 ∨ m.term = r.term)
    (hm : m.typ = .appResp) (hg : r.trk.getProgress m.from = some pr) (hrej : m.reject = false)
    (hnew : pr.match_ < m.index)
    (h : (Raft.step (fuel + 1) m).run r = .ok (res, r')) :
    res = none ∧
    ∃ pr', r'.trk.getProgress m.from = some pr' ∧ pr'.match_ = m.index ∧ pr.match_ < pr'.match_ ∧
      pr'.recentActive = true ∧
      (pr.state = .probe ∨ pr.state = .replicate ∨ (pr.state = .snapshot ∧ r.log.firstIndex ≤ m.index + 1) →
        pr'.state = .replicate ∨ (pr'.state = .snapshot ∧ SnapSent r r' m.from)) := by
  rw [step_leader_dispatch fuel m r hs hterm (by simp [hm])] at h
  obtain ⟨hres, hk, _⟩ := stepLeader_appResp_ack_inv fuel m r r' res pr hm hg hrej h
  obtain ⟨pr', hg', e1, e2, _, e4⟩ := ack_final_progress r r' m pr (hk (ackCond_of_new pr m.index hnew))
  obtain ⟨_, u2, _, u4, _, _, _⟩ := ackUpd_new pr m.index hnew
  refine ⟨hres, pr', hg', e1.trans u2, by rw [e1, u2]; exact hnew, e2, ?_⟩
  intro hcase
  have hrep : (ackTransition (ackUpd pr m.index).1 r.log.firstIndex m.index).state = .replicate := by
    rcases hcase with hc | hc | ⟨hc, hfi⟩
    · exact (ackTransition_probe _ _ _ (u4.trans hc)).1
    · rw [ackTransition_replicate _ _ _ (u4.trans hc)]; exact u4.trans hc
    · exact (ackTransition_snapshot_recovers _ _ _ (u4.trans hc) (by rw [u2]; exact hfi)).1
  rcases e4 with e4 | e4
  · exact Or.inl (e4.trans hrep)
  · exact Or.inr e4

/-- **appresp_recovers_from_snapshot** (raft.go:1538-1545): the `StateSnapshot` case of
`ack_advances_match` on its own.  A follower that waits for a snapshot and acknowledges an index with
`m.Index + 1 ≥ firstIndex` (it caught up to the leader's log by other means, or the snapshot was applied)
leaves `StateSnapshot` for `StateReplicate` — without any `MsgSnapStatus` report. -/
theorem appresp_recovers_from_snapshot (fuel : Nat) (m : Message) (r r' : Raft) (res : Option StepErr)
    (pr : Progress) (hs : r.state = .leader) (hterm : m.term = 0 ∨ m.term = r.term)
    (hm : m.typ = .appResp) (hg : r.trk.getProgress m.from = some pr) (hrej : m.reject = false)
    (hsn : pr.state = .snapshot) (hnew : pr.match_ < m.index) (hfi : r.log.firstIndex ≤ m.index + 1)
    (h : (Raft.step (fuel + 1) m).run r = .ok (res, r')) :
    ∃ pr', r'.trk.getProgress m.from = some pr' ∧ pr'.match_ = m.index ∧
      (pr'.state = .replicate ∨ (pr'.state = .snapshot ∧ SnapSent r r' m.from)) := by
  obtain ⟨_, pr', h1, h2, _, _, h5⟩ := ack_advances_match fuel m r r' res pr hs hterm hm hg hrej hnew h
  exact ⟨pr', h1, h2, h5 (Or.inr (Or.inr ⟨hsn, hfi⟩))⟩

/-- the pure transformation behind it: in `StateSnapshot`, `Match + 1 ≥ firstIndex` gives an un-paused
streaming follower with `Next = Match + 1`; otherwise the progress is left alone -/
theorem snapshot_ack_transition (pr : Progress) (fi idx : Nat) (hsn : pr.state = .snapshot) :
    (fi ≤ pr.match_ + 1 →
      (ackTransition pr fi idx).state = .replicate ∧ (ackTransition pr fi idx).next = pr.match_ + 1 ∧
      (ackTransition pr fi idx).isPaused = false ∧ (ackTransition pr fi idx).pendingSnapshot = 0) ∧
    (pr.match_ + 1 < fi → ackTransition pr fi idx = pr) :=
  ⟨fun h => let k := ackTransition_snapshot_recovers pr fi idx hsn h; ⟨k.1, k.2.1, k.2.2.1, k.2.2.2.1⟩,
   fun h => ackTransition_snapshot_stays pr fi idx hsn h⟩

/-! ## 1d. The empty `MsgApp` of a throttled follower (raft.go:632-641) -/

/-- **throttled_follower_gets_empty_append**.  A streaming follower whose inflight window is full (all
its appends may have been lost) and that is behind the leader's log still gets, on every
`MsgHeartbeatResp`, exactly one message: an **empty** `MsgApp` (a probe that elicits a fresh
`MsgAppResp` and so frees or rejects the window), or a `MsgSnap` when the log is compacted there. -/
theorem throttled_follower_gets_empty_append (fuel : Nat) (m : Message) (r r' : Raft) (res : Option StepErr)
    (pr : Progress) (hs : r.state = .leader) (hterm : m.term = 0 ∨ m.term = r.term)
    (hm : m.typ = .heartbeatResp) (hg : r.trk.getProgress m.from = some pr)
    (hrep : pr.state = .replicate) (hfull : pr.inflights.full = true) (hbehind : pr.match_ < r.log.lastIndex)
    (h : (Raft.step (fuel + 1) m).run r = .ok (res, r')) :
    ∃ x extra, r'.msgs = r.msgs ++ x :: extra ∧ x.to = m.from ∧
      ((x.typ = .app ∧ x.entries = []) ∨ x.typ = .snap) ∧ ∀ y ∈ extra, y.typ = .readIndexResp := by
  rw [step_leader_dispatch fuel m r hs hterm (by simp [hm])] at h
  obtain ⟨_, r2, hro, hyes, _⟩ := stepLeader_heartbeatResp_inv fuel m r r' res pr hm hg h
  obtain ⟨extra, hmsgs, hextra⟩ := hro.msgs
  obtain ⟨b, hb⟩ := hyes (Or.inl hbehind)
  have hgm : (hbMid r m pr).trk.getProgress m.from =
      some { pr with recentActive := true, msgAppFlowPaused := false } := by
    simp [hbMid, getProgress_setProgress]
  have hp : ({ pr with recentActive := true, msgAppFlowPaused := false } : Progress).isPaused = false := by
    rw [Bool.eq_false_iff, Ne, Progress.isPaused_iff]
    simp [hrep]
  obtain ⟨x, hx, hto, hty⟩ := maybeSendAppend_sends_msg m.from (hbMid r m pr) r2 b _ hgm hp rfl hb
  refine ⟨x, extra, ?_, hto, ?_, hextra⟩
  · rw [hmsgs, hx]
    simp [hbMid]
  · rcases hty with hty | hty
    · exact Or.inl ⟨hty, (maybeSendAppend_full_window m.from true (hbMid r m pr) r2 b _ hgm hrep hfull hb x hx hty).1⟩
    · exact Or.inr hty

/-! ## 2. Timers (raft.go:845-885, 2049-2055) -/

/-- **election_fires_after_randomized_timeout** (`tickElection`).  For a promotable node (it has its own
`Progress`, is not a learner, has no pending snapshot), the tick on which
`electionElapsed + 1 ≥ randomizedElectionTimeout` is exactly: reset `electionElapsed` to 0 and `Step` a
`MsgHup` (panics included: the equation is between the raw results). -/
theorem election_fires_after_randomized_timeout (r : Raft) (pr : Progress)
    (hg : r.trk.getProgress r.cfg.id = some pr) (hl : pr.isLearner = false)
    (hsn : r.log.unstable.snapshot = none)
    (ht : r.randomizedElectionTimeout ≤ r.electionElapsed + 1) :
    Raft.tickElection.run r =
      ((Raft.step Raft.stepFuel { «from» := r.cfg.id, typ := .hup }).run { r with electionElapsed := 0 } >>=
        fun p => .ok ((), p.2)) :=
  tickElection_run_fire r (by simp [promotableB, hg, hl, RaftLog.hasNextOrInProgressSnapshot, hsn]) ht

/-- … and before that (or for a node that is not promotable) the tick only advances `electionElapsed`, so
the firing tick above is reached after at most `randomizedElectionTimeout` ticks -/
theorem election_timer_advances (r : Raft)
    (h : promotableB r = false ∨ r.electionElapsed + 1 < r.randomizedElectionTimeout) :
    Raft.tickElection.run r = .ok ((), { r with electionElapsed := r.electionElapsed + 1 }) :=
  tickElection_run_idle r h

/-! ## 2b. What the `MsgHup` of the election timer does (raft.go:940-1010) -/

/-- **hup_campaigns**.  The `MsgHup` stepped by `election_fires_after_randomized_timeout`, at a promotable
non-leader with no unapplied configuration change, starts a campaign: without PreVote the node becomes
candidate of `term + 1` and votes for itself (the term — the measure that breaks a stalemate — strictly
increases); with PreVote it becomes pre-candidate of the same term. -/
theorem hup_campaigns (fuel : Nat) (m : Message) (r r' : Raft) (res : Option StepErr)
    (hm : m.typ = .hup) (h0 : m.term = 0) (hnl : r.state ≠ .leader) (hp : promotableB r = true)
    (hu : Raft.hasUnappliedConfChanges.run r = .ok (false, r))
    (h : (Raft.step (fuel + 1) m).run r = .ok (res, r')) :
    res = none ∧
    (r.cfg.preVote = false →
      r'.state = .candidate ∧ r'.term = r.term + 1 ∧ r'.vote = r.cfg.id ∧ r'.lead = 0 ∧ r'.log = r.log) ∧
    (r.cfg.preVote = true →
      r'.state = .preCandidate ∧ r'.term = r.term ∧ r'.vote = r.vote ∧ r'.lead = 0 ∧ r'.log = r.log) :=
  step_hup_campaigns fuel m r r' res hm h0 hnl hp hu h

/-- a node that has applied everything it committed has no unapplied configuration change -/
theorem no_unapplied_conf_change (r : Raft) (h : r.log.committed ≤ r.log.applied) :
    Raft.hasUnappliedConfChanges.run r = .ok (false, r) :=
  hasUnappliedConfChanges_none r h

/-! ## 2c. The leader's election-timeout block (`tickHeartbeat`, raft.go:861-885) -/

/-- **transfer_aborts_after_election_timeout** (`tickHeartbeat`, raft.go:873-877).  A leader's tick on
which `electionElapsed + 1 ≥ electionTimeout` ends with **no leadership transfer pending** and the
election timer wrapped — whether the node stays leader or CheckQuorum makes it step down, whatever the
transfer target was. -/
theorem transfer_aborts_after_election_timeout (r r' : Raft) (hs : r.state = .leader)
    (ht : r.cfg.electionTimeout ≤ r.electionElapsed + 1)
    (h : Raft.tickHeartbeat.run r = .ok ((), r')) :
    r'.leadTransferee = 0 ∧ r'.electionElapsed = 0 := by
  obtain ⟨h1, h2, h3⟩ := tickHeartbeat_timeout_inv r r' hs ht h
  have hbt : ∀ X : Raft, X.leadTransferee = 0 → X.electionElapsed = 0 → BeatTail X r' →
      r'.leadTransferee = 0 ∧ r'.electionElapsed = 0 := by
    rintro X hx1 hx2 ⟨r5, h5 | h5, sf, _⟩ <;> subst h5
    · exact ⟨sf.leadTransferee.trans hx1, sf.electionElapsed.trans hx2⟩
    · exact ⟨sf.leadTransferee.trans hx1, sf.electionElapsed.trans hx2⟩
  cases hq : r.cfg.checkQuorum with
  | false => exact hbt _ rfl rfl (h1 hq)
  | true =>
    cases ha : r.trk.quorumActive with
    | true => exact hbt _ rfl rfl (h2 hq ha)
    | false =>
      obtain ⟨rf, hb, rfl⟩ := h3 hq ha
      obtain ⟨_, _, _, _, _, _, _, _, k1, k2, _⟩ := (becomeFollower_live r.term 0 (hbWrapped r)).elim hb
      exact ⟨k1, k2⟩

/-- **checkquorum_step_down** (raft.go:866-871, 1246-1257).  A leader with CheckQuorum that has not heard
from a quorum (`¬ QuorumActive`) for an election timeout steps down on that tick: follower of the same
term, same vote, no leader known; log and outgoing queues untouched. -/
theorem checkquorum_step_down (r r' : Raft) (hs : r.state = .leader) (hq : r.cfg.checkQuorum = true)
    (ht : r.cfg.electionTimeout ≤ r.electionElapsed + 1) (hna : r.trk.quorumActive = false)
    (h : Raft.tickHeartbeat.run r = .ok ((), r')) :
    r'.state = .follower ∧ r'.term = r.term ∧ r'.vote = r.vote ∧ r'.lead = 0 ∧ r'.leadTransferee = 0 ∧
    r'.log = r.log ∧ r'.msgs = r.msgs ∧ r'.msgsAfterAppend = r.msgsAfterAppend := by
  obtain ⟨rf, hb, rfl⟩ := (tickHeartbeat_timeout_inv r r' hs ht h).2.2 hq hna
  obtain ⟨k1, k2, k3, k4, k5, _, k7, k8, k9, _, _⟩ := (becomeFollower_live r.term 0 (hbWrapped r)).elim hb
  refine ⟨k4, k1, ?_, k3, k9, k5, k7, k8⟩
  show rf.vote = r.vote
  rw [k2]; exact if_pos rfl

/-- … **otherwise** (a quorum was active) it stays leader of the same term and the `RecentActive` flag of
every peer is cleared, so the next check needs fresh responses -/
theorem checkquorum_clears_recent_active (r r' : Raft) (hs : r.state = .leader) (hq : r.cfg.checkQuorum = true)
    (ht : r.cfg.electionTimeout ≤ r.electionElapsed + 1) (ha : r.trk.quorumActive = true)
    (h : Raft.tickHeartbeat.run r = .ok ((), r')) :
    r'.state = .leader ∧ r'.term = r.term ∧ r'.leadTransferee = 0 ∧
    (∀ id pr', r'.trk.getProgress id = some pr' → id ≠ r.cfg.id → pr'.recentActive = false) ∧
    (∀ id pr', r'.trk.getProgress id = some pr' → ∃ pr, r.trk.getProgress id = some pr ∧ pr'.match_ = pr.match_) := by
  obtain ⟨r5, h5, sf, new, _, pk⟩ := (tickHeartbeat_timeout_inv r r' hs ht h).2.1 hq ha
  have hg5 : ∀ id, r5.trk.getProgress id = (clearRA (hbWrapped r)).trk.getProgress id := by
    intro id; rcases h5 with h5 | h5 <;> subst h5 <;> rfl
  have hst : r5.state = .leader ∧ r5.term = r.term ∧ r5.leadTransferee = 0 := by
    rcases h5 with h5 | h5 <;> subst h5 <;> exact ⟨hs, rfl, rfl⟩
  have hcl : ∀ id, r5.trk.getProgress id =
      (r.trk.getProgress id).map fun pr => if id = r.cfg.id then pr else { pr with recentActive := false } := by
    intro id; rw [hg5, getProgress_clearRA]; rfl
  refine ⟨sf.state.trans hst.1, sf.term.trans hst.2.1, sf.leadTransferee.trans hst.2.2, ?_, ?_⟩
  · intro id pr' hg' hne
    cases hgr : r.trk.getProgress id with
    | none =>
      have := (pk id).1 (by rw [hcl, hgr]; rfl)
      rw [this] at hg'; cases hg'
    | some pr =>
      obtain ⟨pr'', hg'', _, e2, _⟩ := (pk id).2 _ (by rw [hcl, hgr]; rfl)
      rw [hg''] at hg'; injection hg' with hg'; subst hg'
      rw [e2]; simp [hne]
  · intro id pr' hg'
    cases hgr : r.trk.getProgress id with
    | none =>
      have := (pk id).1 (by rw [hcl, hgr]; rfl)
      rw [this] at hg'; cases hg'
    | some pr =>
      obtain ⟨pr'', hg'', e1, _⟩ := (pk id).2 _ (by rw [hcl, hgr]; rfl)
      rw [hg''] at hg'; injection hg' with hg'; subst hg'
      refine ⟨pr, rfl, ?_⟩
      rw [e1]; simp only; split <;> rfl

/-! ## 3. A node stuck at a higher term is freed (raft.go:1133-1156, 1096-1131) -/

/-- **stale_leader_msg_gets_response**.  With CheckQuorum or PreVote, a MsgApp / MsgHeartbeat of a lower
(non-zero) term is answered — in any role, whatever else the message contains — by exactly one empty
`MsgAppResp` for the sender carrying the receiver's (higher) term, queued in `msgsAfterAppend`; nothing
else changes, no error. -/
theorem stale_leader_msg_gets_response (fuel : Nat) (m : Message) (r : Raft)
    (h0 : m.term ≠ 0) (hlt : m.term < r.term) (ht : m.typ = .app ∨ m.typ = .heartbeat)
    (hq : r.cfg.checkQuorum = true ∨ r.cfg.preVote = true) :
    (Raft.step (fuel + 1) m).run r =
      .ok (none, { r with msgsAfterAppend := r.msgsAfterAppend ++
        [{ to := m.from, «from» := r.cfg.id, typ := .appResp, term := r.term }] }) :=
  step_stale_app_run fuel m r h0 hlt ht hq

/-- without CheckQuorum and PreVote the stale message is silently ignored (and then a node that
campaigned in isolation *can* stay ahead of its leader until an election reaches it) -/
theorem stale_leader_msg_ignored (fuel : Nat) (m : Message) (r : Raft)
    (h0 : m.term ≠ 0) (hlt : m.term < r.term) (ht : m.typ = .app ∨ m.typ = .heartbeat)
    (hq : r.cfg.checkQuorum = false) (hp : r.cfg.preVote = false) :
    (Raft.step (fuel + 1) m).run r = .ok (none, r) :=
  step_stale_app_ignored fuel m r h0 hlt ht hq hp

/-- **higher_term_response_deposes**: the receiving side.  A node (in particular a leader) that steps a
`MsgAppResp` / `MsgHeartbeatResp` of a higher term becomes follower **at that term**, with no vote, no
leader and no pending transfer; log and queues are untouched and the message has no further effect. -/
theorem higher_term_response_deposes (fuel : Nat) (m : Message) (r r' : Raft) (res : Option StepErr)
    (hgt : r.term < m.term) (ht : m.typ = .appResp ∨ m.typ = .heartbeatResp)
    (h : (Raft.step (fuel + 1) m).run r = .ok (res, r')) :
    res = none ∧ r'.state = .follower ∧ r'.term = m.term ∧ r'.vote = 0 ∧ r'.lead = 0 ∧
    r'.leadTransferee = 0 ∧ r'.electionElapsed = 0 ∧ r'.log = r.log ∧ r'.msgs = r.msgs ∧
    r'.msgsAfterAppend = r.msgsAfterAppend := by
  rw [step_higher_term_resp_run fuel m r hgt ht] at h
  obtain ⟨p, hb, h'⟩ := bind_eq_ok.1 h
  injection h' with h'; injection h' with e1 e2; subst e2
  obtain ⟨k1, k2, k3, k4, k5, _, k7, k8, k9, k10, _⟩ := (becomeFollower_live m.term 0 r).elim hb
  refine ⟨e1.symm, k4, k1, ?_, k3, k9, k10, k5, k7, k8⟩
  rw [k2]; exact if_neg (by omega)

/-- the two halves fit: the response of `stale_leader_msg_gets_response` deposes the stale leader -/
theorem stale_leader_is_deposed (fuel : Nat) (m : Message) (stuck leader leader' : Raft) (res : Option StepErr)
    (hlt : leader.term < stuck.term)
    (h : (Raft.step (fuel + 1) (staleResp stuck m)).run leader = .ok (res, leader')) :
    leader'.state = .follower ∧ leader'.term = stuck.term :=
  let k := higher_term_response_deposes fuel (staleResp stuck m) leader leader' res hlt (Or.inl rfl) h
  ⟨k.2.1, k.2.2.1⟩

/-! ## 4. Storage acknowledgements (rawnode.go:210-216, 274-358; raft.go:1168-1186) -/

/-- **storage_append_resp_attached** (`RawNode.readyWithoutAccept`, async storage writes).  Whenever
unstable entries exist — handed out by this `Ready` or still in progress from an earlier one — **every**
`MsgStorageAppend` this `Ready` emits carries, as its **last** response after exactly `msgsAfterAppend`, a
`MsgStorageAppendResp` from the append thread to the node itself, stamped with the node's current term
and the `(index, term)` of the last log entry: the acknowledgement that `stable_ack_same_term_empties_unstable`
consumes can never be missing. -/
theorem storage_append_resp_attached (rn : RawNode) (rd : Ready) (ha : rn.async = true)
    (hne : rn.raft.log.unstable.entries ≠ []) (h : rn.readyWithoutAccept = .ok rd) :
    ∀ msg ∈ rd.messages.drop rn.raft.msgs.length, msg.typ = .storageAppend →
      ∃ resp last, msg.responses = rn.raft.msgsAfterAppend ++ [resp] ∧
        resp.typ = .storageAppendResp ∧ resp.to = rn.raft.cfg.id ∧ resp.from = localAppendThread ∧
        resp.term = rn.raft.term ∧
        rn.raft.log.lastEntryID = .ok last ∧ resp.index = last.index ∧ resp.logTerm = last.term := by
  have hne' : rn.raft.log.hasNextOrInProgressUnstableEnts = true := by
    simp [RaftLog.hasNextOrInProgressUnstableEnts, List.length_pos_iff, hne]
  intro msg hm ht
  obtain ⟨resp, h1, h2⟩ := readyWithoutAccept_append_ack rn rd ha hne' h msg hm ht
  obtain ⟨last, l1, l2, l3⟩ := h2.last
  exact ⟨resp, last, h1, h2.typ, h2.to, h2.frm, h2.term, l1, l2, l3⟩

/-- … and whenever there are new unstable entries to hand out, such a `MsgStorageAppend` — addressed to
the append thread and carrying exactly those entries — **is** emitted by this `Ready` -/
theorem storage_append_emitted (rn : RawNode) (rd : Ready) (ha : rn.async = true)
    (hents : rn.raft.log.nextUnstableEnts ≠ []) (h : rn.readyWithoutAccept = .ok rd) :
    ∃ msg ∈ rd.messages.drop rn.raft.msgs.length, msg.typ = .storageAppend ∧ msg.to = localAppendThread ∧
      msg.entries = rn.raft.log.nextUnstableEnts :=
  readyWithoutAccept_append_emitted rn rd ha hents h

/-- **stable_ack_same_term_empties_unstable**.  A `MsgStorageAppendResp` of the node's current term (or
local, term 0) that acknowledges exactly the last unstable entry `(index, term)` and carries no snapshot
always succeeds and leaves `unstable.entries = []` with `offset = index + 1`; nothing but the log
changes. -/
theorem stable_ack_same_term_empties_unstable (fuel : Nat) (m : Message) (r : Raft) (last : Entry)
    (hwf : r.log.unstable.WF) (ht : m.typ = .storageAppendResp) (hterm : m.term = 0 ∨ m.term = r.term)
    (hsn : m.snapshot = none) (hl : r.log.unstable.entries.getLast? = some last)
    (hi : m.index = last.index) (hlt : m.logTerm = last.term) (hpos : m.index ≠ 0) :
    ∃ l', (Raft.step (fuel + 1) m).run r = .ok (none, { r with log := l' }) ∧
      l'.unstable.entries = [] ∧ l'.unstable.offset = last.index + 1 ∧
      l'.unstable.snapshot = r.log.unstable.snapshot ∧ l'.storage = r.log.storage ∧
      l'.committed = r.log.committed := by
  refine ⟨r.log.stableTo { term := m.logTerm, index := m.index }, ?_, ?_⟩
  · rw [step_storageAppendResp_run fuel m r ht hterm hsn, if_pos hpos]
  · obtain ⟨k1, k2, k3⟩ := stableTo_last_empties hwf hl
    rw [hi, hlt]
    exact ⟨k1, k2, k3, rfl, rfl⟩

/-- a stale acknowledgement (index 0, i.e. nothing to acknowledge) changes nothing -/
theorem stable_ack_nothing (fuel : Nat) (m : Message) (r : Raft)
    (ht : m.typ = .storageAppendResp) (hterm : m.term = 0 ∨ m.term = r.term)
    (hsn : m.snapshot = none) (hi : m.index = 0) :
    (Raft.step (fuel + 1) m).run r = .ok (none, r) := by
  rw [step_storageAppendResp_run fuel m r ht hterm hsn, if_neg (by simp [hi])]

/-- **apply_unpauses_when_acked** (`raftLog.appliedTo`, log.go:320-345).  Once the acknowledged size
brings the outstanding size below the (positive) limit — in particular when the whole outstanding batch
is acknowledged — applying is not paused any more. -/
theorem apply_unpauses_when_acked (l l' : RaftLog) (i size : Nat) (hok : l.appliedTo i size = .ok l')
    (hpos : 0 < l.maxApplyingEntsSize) (hsz : l.applyingEntsSize < size + l.maxApplyingEntsSize) :
    l'.applyingEntsPaused = false ∧ l'.applied = i ∧ l.applying ≤ l'.applying ∧
    (l.applyingEntsSize ≤ size → l'.applyingEntsSize = 0) := by
  obtain ⟨h1, h2, h3, h4⟩ := appliedTo_unpauses l l' i size hok hsz hpos
  exact ⟨h1, h3, h4, fun hle => by omega⟩

/-! ## 5. The automatic leave-joint proposal is retried (raft.go:1997-2023) -/

/-- **autoleave_retried_on_every_apply** (`raft.appliedTo`).  Whenever the configuration is joint with
`AutoLeave`, the node is leader and the new applied index has reached `pendingConfIndex`, `appliedTo`
steps the empty ConfChangeV2 proposal — at *every* such call, independently of what happened to
earlier attempts. -/
theorem autoleave_retried_on_every_apply (fuel index size : Nat) (r : Raft) (l : RaftLog)
    (hl : r.log.appliedTo (max index r.log.applied) size = .ok l)
    (ha : r.trk.cfg.autoLeave = true) (hs : r.state = .leader)
    (hp : r.pendingConfIndex ≤ max index r.log.applied) :
    (Raft.appliedTo fuel index size).run r =
      ((Raft.step fuel leaveJointMsg).run { r with log := l } >>= fun p => .ok ((), p.2)) :=
  appliedTo_autoleave_run fuel index size r l hl ha hs hp

/-- … in particular an attempt made while a leadership transfer is in flight is dropped **without
trace**: `appliedTo` only updates the log, so `autoLeave`, `pendingConfIndex` and the role are as
before and the hypotheses of `autoleave_retried_on_every_apply` hold again at the next applied entry. -/
theorem autoleave_dropped_during_transfer (fuel index size : Nat) (r : Raft) (l : RaftLog)
    (hl : r.log.appliedTo (max index r.log.applied) size = .ok l)
    (ha : r.trk.cfg.autoLeave = true) (hs : r.state = .leader)
    (hp : r.pendingConfIndex ≤ max index r.log.applied)
    (hself : (r.trk.getProgress r.cfg.id).isNone = false) (hlt : r.leadTransferee ≠ 0) :
    (Raft.appliedTo (fuel + 1) index size).run r = .ok ((), { r with log := l }) := by
  rw [appliedTo_autoleave_run (fuel + 1) index size r l hl ha hs hp,
    step_leader_dispatch fuel leaveJointMsg { r with log := l } hs (Or.inl rfl) (by simp [leaveJointMsg]),
    stepLeader_prop_dropped_transfer fuel leaveJointMsg { r with log := l } rfl (by simp [leaveJointMsg]) hself hlt]
  rfl

/-- and otherwise `appliedTo` steps nothing -/
theorem autoleave_not_attempted (fuel index size : Nat) (r : Raft) (l : RaftLog)
    (hl : r.log.appliedTo (max index r.log.applied) size = .ok l)
    (hn : r.trk.cfg.autoLeave = false ∨ r.state ≠ .leader ∨ max index r.log.applied < r.pendingConfIndex) :
    (Raft.appliedTo fuel index size).run r = .ok ((), { r with log := l }) :=
  appliedTo_plain_run fuel index size r l hl hn

/-! ## Non-vacuity on concrete states

`exLeader pr2` (from `Props/C16.lean`): a term-2 leader (id 1) of {1, 2}, log `[1.1, 2.2, 2.3]`, committed 2,
`MaxSizePerMsg = 8`, one inflight message allowed; `pr2` is the progress of follower 2. -/

/-- follower 2 waits for the snapshot at index 3 -/
def exSnapPr : Progress := { match_ := 0, next := 4, state := .snapshot, pendingSnapshot := 3, recentActive := true }

/-- follower 2 is being probed at index 2 (paused, one probe in flight) -/
def exProbePr : Progress := { match_ := 0, next := 3, state := .probe, msgAppFlowPaused := true }

/-- `snap_status_resumes_probe`: its hypotheses hold for `exSnapPr`, and `Next = max 1 4 = 4` -/
example : ∃ pr', (Raft.step 3 { typ := .snapStatus, «from» := 2 }).run (exLeader exSnapPr) =
      .ok (none, { exLeader exSnapPr with trk := (exLeader exSnapPr).trk.setProgress 2 pr' }) ∧
    pr'.state = .probe ∧ pr'.isPaused = true ∧ pr'.next = 4 := by
  obtain ⟨pr', h, h1, h2, _, _, _, _, h7, _⟩ :=
    snap_status_resumes_probe 2 { typ := .snapStatus, «from» := 2 } (exLeader exSnapPr) exSnapPr rfl (Or.inl rfl) rfl
      (by decide) rfl
  exact ⟨pr', h, h1, h2, by rw [h7 rfl]; decide⟩

/-- `unreachable_leaves_replicate` on the streaming follower `exFullPr` (window full): back to probing at
`Next = Match + 1 = 2` -/
example : (Raft.step 3 { typ := .unreachable, «from» := 2 }).run (exLeader exFullPr) =
    .ok (none, { exLeader exFullPr with trk := (exLeader exFullPr).trk.setProgress 2 exFullPr.becomeProbe }) ∧
    exFullPr.becomeProbe.next = 2 :=
  let h := (unreachable_leaves_replicate 2 { typ := .unreachable, «from» := 2 } (exLeader exFullPr) exFullPr rfl
    (Or.inl rfl) rfl (by decide)).1 rfl
  ⟨h.1, h.2.2.2.2.1⟩

/-- `heartbeat_resp_unpauses` / `throttled_follower_gets_empty_append`: follower 2 streams with a full
window and is behind (`Match = 1 < 3`): one empty `MsgApp` goes out, the follower is marked active -/
example : ((Raft.step 3 { typ := .heartbeatResp, «from» := 2, term := 2 }).run (exLeader exFullPr)).toOption.map
    (fun p => (p.2.msgs.map (fun x => (x.typ, x.to, x.entries.length)),
      (p.2.trk.getProgress 2).map (fun pr => (pr.recentActive, pr.match_)))) =
    some ([(.app, 2, 0)], some (true, 1)) := by
  rw [Raft.step, Raft.stepLeader]; decide +kernel

/-- `probe_reject_reprobes`: the probe at 2 is rejected with hint 0: `Next` drops from 3 to 1 and the next
probe (entries 1, 2 after index 0) goes out at once -/
example : ((Raft.step 3 { typ := .appResp, «from» := 2, term := 2, reject := true, index := 2 }).run
      (exLeader exProbePr)).toOption.map
    (fun p => (p.2.msgs.map (fun x => (x.typ, x.to, x.index, x.entries.length)),
      (p.2.trk.getProgress 2).map (fun pr => (pr.state, pr.next, pr.match_)))) =
    some ([(.app, 2, 0, 2)], some (.probe, 1, 0)) := by
  rw [Raft.step, Raft.stepLeader]; decide +kernel

/-- `ack_advances_match` / `appresp_recovers_from_snapshot`: the follower waiting for the snapshot at 3
acknowledges index 3 (`3 + 1 ≥ firstIndex = 1`): it streams again with `Match = 3`, and the commit index
advances to 3 -/
example : ((Raft.step 3 { typ := .appResp, «from» := 2, term := 2, index := 3 }).run
      (exLeader exSnapPr)).toOption.map
    (fun p => ((p.2.trk.getProgress 2).map (fun pr => (pr.state, pr.next, pr.match_)), p.2.log.committed)) =
    some (some (.replicate, 4, 3), 3) := by
  rw [Raft.step, Raft.stepLeader]; decide +kernel

/-- a leader that is transferring leadership to 2; 9 of 10 election ticks elapsed, heartbeat not due -/
def exTransfer : Raft :=
  let b := exLeader exStreamPr
  { b with leadTransferee := 2, electionElapsed := 9, cfg := { id := 1, heartbeatTimeout := 5 } }

/-- `transfer_aborts_after_election_timeout`: the tenth tick aborts the transfer -/
example : (Raft.tickHeartbeat.run exTransfer).toOption.map
    (fun p => (p.2.leadTransferee, p.2.electionElapsed, p.2.state)) = some (0, 0, .leader) := by
  decide +kernel

/-- the same leader with CheckQuorum; only follower 2 was recently active (1 of 2 voters: no quorum) -/
def exCQ : Raft :=
  let b := exLeader exStreamPr
  { b with electionElapsed := 9, draws := [3], cfg := { id := 1, heartbeatTimeout := 5, checkQuorum := true } }

/-- `checkquorum_step_down`: the tenth tick makes it a follower of the same term (new randomized timeout 10 + 3) -/
example : (Raft.tickHeartbeat.run exCQ).toOption.map
    (fun p => (p.2.state, p.2.term, p.2.lead, p.2.randomizedElectionTimeout)) = some (.follower, 2, 0, 13) := by
  unfold Raft.tickHeartbeat Raft.stepFuel
  simp only [Raft.step, Raft.stepLeader]
  decide +kernel

/-- a follower of term 5 with PreVote that was partitioned away; its old leader (term 2) is `exLeader` -/
def exStuck : Raft := { cfg := { id := 2, preVote := true }, term := 5, draws := [] }

/-- `stale_leader_msg_gets_response` then `higher_term_response_deposes`: the heartbeat of the term-2
leader is answered with a `MsgAppResp` of term 5, which deposes that leader -/
example : (Raft.step 3 { typ := .heartbeat, «from» := 1, to := 2, term := 2 }).run exStuck =
    .ok (none, { exStuck with msgsAfterAppend := [{ to := 1, «from» := 2, typ := .appResp, term := 5 }] }) :=
  stale_leader_msg_gets_response 2 _ exStuck (by decide) (by decide) (Or.inr rfl) (Or.inr rfl)

example : ((Raft.step 3 { to := 1, «from» := 2, typ := .appResp, term := 5 }).run
      { exLeader exStreamPr with draws := [4] }).toOption.map
    (fun p => (p.2.state, p.2.term, p.2.vote, p.2.lead)) = some (.follower, 5, 0, 0) := by
  rw [Raft.step, Raft.stepFollower]; decide +kernel

/-- a follower (id 1 of {1, 2}) whose randomized election timeout 13 is about to elapse -/
def exTimedOut : Raft :=
  { cfg := { id := 1 }, term := 4, log := RaftLog.new {} 1000, electionElapsed := 12, randomizedElectionTimeout := 13,
    draws := [4],
    trk := { cfg := { voters := [1, 2] }, progress := [(1, { match_ := 0, next := 1 }), (2, { match_ := 0, next := 1 })] } }

example : promotableB exTimedOut = true := by decide

/-- `election_fires_after_randomized_timeout` + `hup_campaigns`: the 13th tick makes it candidate of term 5 -/
example : (Raft.tickElection.run exTimedOut).toOption.map
    (fun p => ((p.2.state, p.2.term, p.2.vote), p.2.msgs.map (fun x => (x.typ, x.to, x.term)))) =
    some ((.candidate, 5, 1), [(.vote, 2, 5)]) := by
  rw [election_fires_after_randomized_timeout exTimedOut { match_ := 0, next := 1 } (by decide) rfl rfl (by decide),
    show Raft.stepFuel = 2 + 1 from rfl, Raft.step]
  decide +kernel

/-- the term-2 leader of `exLeader` with entries 4 (term 2) still unstable -/
def exUnstable : Raft :=
  let b := exLeader exStreamPr
  { b with log := { b.log with applying := 2, applied := 2, maxApplyingEntsSize := 1000, unstable := { offset := 4, offsetInProgress := 5, entries := [{ term := 2, index := 4 }] } } }

example : exUnstable.log.unstable.WF := by decide

/-- `stable_ack_same_term_empties_unstable`: the acknowledgement of (4, term 2) in term 2 -/
def exAck : Message :=
  { typ := .storageAppendResp, «from» := localAppendThread, to := 1, term := 2, index := 4, logTerm := 2 }

example : ((Raft.step 3 exAck).run exUnstable).toOption.map
    (fun p => (p.2.log.unstable.entries.length, p.2.log.unstable.offset)) = some (0, 5) := by
  rw [Raft.step]; decide +kernel

/-- `apply_unpauses_when_acked`: 10 of 10 outstanding bytes acknowledged against a limit of 8 -/
def exPausedLog : RaftLog :=
  { applyingEntsSize := 10, maxApplyingEntsSize := 8, applyingEntsPaused := true, committed := 5, applying := 5,
    applied := 2 }

example : (exPausedLog.appliedTo 5 10).toOption.map
    (fun l => (l.applyingEntsPaused, l.applyingEntsSize, l.applied)) = some (false, 0, 5) := by decide

/-- an async node over `exUnstable` whose entry 4 has not been handed out yet -/
def exAsyncNode : RawNode :=
  { raft := { exUnstable with log := { exUnstable.log with unstable := { exUnstable.log.unstable with offsetInProgress := 4 } } },
    async := true, prevSoft := (0, .leader), prevHard := { term := 2, vote := 0, commit := 2 } }

/-- `storage_append_resp_attached`: the `MsgStorageAppend` for entry 4 carries the acknowledgement
`(index 4, term 2)` of term 2 for node 1 -/
example : (exAsyncNode.readyWithoutAccept).toOption.map
    (fun rd => (rd.messages.map (fun m => (m.typ, m.entries.length)),
      rd.messages.flatMap (fun m => m.responses.map (fun x => (x.typ, x.to, x.term))),
      rd.messages.flatMap (fun m => m.responses.map (fun x => (x.index, x.logTerm))))) =
    some ([(.storageAppend, 1)], [(.storageAppendResp, 1, 2)], [(4, 2)]) := by
  decide +kernel

/-- a leader in a joint configuration with `AutoLeave`, all entries applied up to 2, transferring leadership -/
def exJoint : Raft :=
  let b := exLeader exStreamPr
  { b with leadTransferee := 2, pendingConfIndex := 2,
           trk := { b.trk with cfg := { voters := [1, 2], outgoing := some [1], autoLeave := true } } }

/-- `autoleave_dropped_during_transfer`: its hypotheses hold for `exJoint`; the attempt leaves no trace -/
example : ∃ l, (Raft.appliedTo 2 2 0).run exJoint = .ok ((), { exJoint with log := l }) ∧ l.applied = 2 := by
  have hl : exJoint.log.appliedTo (max 2 exJoint.log.applied) 0 =
      .ok { exJoint.log with applied := 2, applying := 2, applyingEntsPaused := true } := rfl
  exact ⟨_, autoleave_dropped_during_transfer 1 2 0 exJoint _ hl rfl rfl (by decide) (by decide) (by decide), rfl⟩

end RaftVerif.C15
