import RaftVerif.Proofs.SpecElection
import RaftVerif.Proofs.SpecLog
import RaftVerif.Proofs.SpecCommit
import RaftVerif.Spec.QuorumInst
/-!
# Global safety properties of the abstract protocol `Spec/Raft`

Property theorems only: `Reachable cfg s → Statement s` for the statements of
`Spec/Statements.lean`, for every quorum predicate satisfying `Cfg.OK` (in particular every joint
majority configuration with a non-empty incoming half, `jointCfg_ok`).
-/
namespace RaftVerif.Spec

/-- **C02** election safety -/
theorem election_safety (cfg : Cfg) (hcfg : cfg.OK) (s : State) (h : Reachable cfg s) :
    ElectionSafety s := by
  have hi := inv1_reachable cfg hcfg s h
  exact ⟨fun t n n' h1 h2 => nodup_map_fst_unique _ hi.elected_nodup t n n' h1 h2, hi.elected_nodup⟩

/-- **C02** one leader per term -/
theorem one_leader_per_term (cfg : Cfg) (hcfg : cfg.OK) (s : State) (h : Reachable cfg s) :
    OneLeaderPerTerm s := by
  have hi := inv1_reachable cfg hcfg s h
  intro n n' hn hn' ht
  have h1 := hi.leader_elected n hn
  have h2 := hi.leader_elected n' hn'
  rw [ht] at h1
  exact nodup_map_fst_unique _ hi.elected_nodup _ n n' h1 h2

/-- **C02** released votes are unique per (term, voter) -/
theorem vote_unique (cfg : Cfg) (hcfg : cfg.OK) (s : State) (h : Reachable cfg s) : VoteUnique s := by
  have hi := inv1_reachable cfg hcfg s h
  intro t v c c' h1 h2
  exact ((hi.nodes v).vers _ (by simp [versions])).votes_uniq t c c' (hi.vote_msg _ _ _ h1)
    (hi.vote_msg _ _ _ h2)

/-- **C05** (votes) a released vote is covered by the voter's durable state -/
theorem vote_durable (cfg : Cfg) (hcfg : cfg.OK) (s : State) (h : Reachable cfg s) : VoteDurable s := by
  have hi := inv1_reachable cfg hcfg s h
  intro t v c hm
  have hok : VerOK (s.nodes v).dur := (hi.nodes v).vers _ (by simp [versions])
  have h1 := hi.vote_msg _ _ _ hm
  have h2 := hok.votes_le _ _ h1
  rcases Nat.lt_or_ge t (s.nodes v).dur.term with h3 | h3
  · exact Or.inl h3
  · have h4 : (s.nodes v).dur.term = t := by omega
    refine Or.inr ⟨h4, ?_⟩
    subst h4
    exact hok.votes_cur c h1

/-- **C07** the durable term never exceeds the volatile one; a leader's term is durable -/
theorem durable_behind_volatile (cfg : Cfg) (hcfg : cfg.OK) (s : State) (h : Reachable cfg s) :
    DurableBehindVolatile s := by
  have hi := inv1_reachable cfg hcfg s h
  intro n
  exact ⟨(hi.nodes n).dur_le_vol.term_le, (hi.nodes n).leader_dur⟩

/-- **C03** terms never decrease within a log and are bounded by the owner's term -/
theorem terms_monotone (cfg : Cfg) (hcfg : cfg.OK) (s : State) (h : Reachable cfg s) :
    TermsMonotone s := by
  have hi := inv2_reachable cfg hcfg s h
  intro n v hv
  exact ⟨(hi.ver_log n v hv).sorted, (hi.ver_log n v hv).terms⟩

/-- **C03** log matching, across all versions of all nodes -/
theorem log_matching (cfg : Cfg) (hcfg : cfg.OK) (s : State) (h : Reachable cfg s) :
    LogMatching s := by
  have hi := inv2_reachable cfg hcfg s h
  intro n n' v v' hv hv' i _ hi' ht
  exact (hi.ver_log n v hv).ok.matching (hi.ver_log n' v' hv').ok i hi' ht

/-- **C06 (b)** the commit index is never ahead of the log -/
theorem commit_within_log (cfg : Cfg) (hcfg : cfg.OK) (s : State) (h : Reachable cfg s) :
    CommitWithinLog s := by
  have hi := inv2_reachable cfg hcfg s h
  exact hi.ver_commit

/-- **C06 (a)** a leader's log is the ghost log of its term -/
theorem committed_is_leader_log (cfg : Cfg) (hcfg : cfg.OK) (s : State) (h : Reachable cfg s) :
    CommittedIsLeaderLog s := by
  have hi := inv2_reachable cfg hcfg s h
  exact hi.leader_log

/-- **C05** (acks) a released acknowledgement is covered by the sender's durable term -/
theorem ack_durable (cfg : Cfg) (hcfg : cfg.OK) (s : State) (h : Reachable cfg s) : AckDurable s := by
  have hi1 := inv1_reachable cfg hcfg s h
  have hi3 := inv3_reachable cfg hcfg s h
  intro t v k hm hk
  rcases hi3.ack_msg t v k hm with h0 | h0
  · omega
  · exact ((hi1.nodes v).vers _ (by simp [versions])).acks_le t k h0

/-- **C04** leader completeness: the log of every elected leader of term `T` holds every entry
committed by anybody while in a term below `T` (whether committed before or after the election) -/
theorem leader_completeness (cfg : Cfg) (hcfg : cfg.OK) (s : State) (h : Reachable cfg s) :
    LeaderCompleteness s := by
  have hi3 := inv3_reachable cfg hcfg s h
  intro T n i e tc hel hcm htc
  obtain ⟨c, j, hc, hj, hch, hat⟩ := hi3.committed_chosen i e tc hcm
  rcases hi3.safe_at T n hel c j (by omega) hch.2.1 with h' | h'
  · rw [← hat, ← Log.at?_take hj, h', Log.at?_take hj]
  · exact absurd h' (fun hd => chosen_not_dead hcfg hch (Nat.le_refl _) hd)

/-- **C01** state-machine safety: no index is ever committed with two different entries -/
theorem state_machine_safety (cfg : Cfg) (hcfg : cfg.OK) (s : State) (h : Reachable cfg s) :
    StateMachineSafety s := by
  have hi2 := inv2_reachable cfg hcfg s h
  have hi3 := inv3_reachable cfg hcfg s h
  intro i e e' t t' h1 h2
  obtain ⟨c, j, _, hj, hch, hat⟩ := hi3.committed_chosen i e t h1
  obtain ⟨c', j', _, hj', hch', hat'⟩ := hi3.committed_chosen i e' t' h2
  have : (s.glog c).at? i = (s.glog c').at? i := by
    rcases Nat.le_total c c' with hcc | hcc
    · exact (chosen_agree hcfg hi2 hi3 hch hch' hcc hj).symm
    · exact chosen_agree hcfg hi2 hi3 hch' hch hcc hj'
  rw [hat, hat'] at this
  exact Option.some.inj this

end RaftVerif.Spec

namespace RaftVerif.Spec

/-! ### Non-vacuity: a concrete run that elects a leader, appends and commits an entry -/

/-- run a list of actions through the executable step function; `none` as soon as one is disabled -/
def run (cfg : Cfg) (s : State) : List Action → Option State
  | [] => some s
  | a :: as => match step? cfg s a with
    | none => none
    | some s' => run cfg s' as

/-- three voters, simple majority -/
def cfg3 : Cfg := jointCfg [1, 2, 3] []

theorem cfg3_ok : cfg3.OK := jointCfg_ok [1, 2, 3] [] (by decide) (by decide) (by decide)

/-- node 1 campaigns and sends its vote request, node 3 grants (durably), node 1 is elected in
term 1, appends `(1,7)`, replicates it to node 3, receives the durable acknowledgement and commits
index 1; node 3 learns the commit index from a heartbeat. -/
def demoTrace : List Action := [
  .campaign 1, .sendReqVote 1, .write 1, .persist 1,
  .updateTerm 3 1, .grant 3 1 0 0, .write 3, .persist 3, .sendVote 3 1 1,
  .becomeLeader 1 [1, 3],
  .leaderAppend 1 7, .write 1, .persist 1,
  .sendApp 1 0 1 0,
  .handleApp 3 1 0 0 [⟨1, 7⟩] 0, .write 3, .persist 3, .sendAck 3 1 1,
  .leaderCommit 1 1 [1, 3],
  .sendHb 1 3 1, .handleHb 3 1 1]

example : (run cfg3 State.init demoTrace).isSome = true := by decide

example : (run cfg3 State.init demoTrace).map (·.elected) = some [(1, 1)] := by decide

example : (run cfg3 State.init demoTrace).map (·.committed) =
    some [(1, ⟨1, 7⟩, 1), (1, ⟨1, 7⟩, 1)] := by decide

example : (run cfg3 State.init demoTrace).map (fun s => ((s.nodes 1).role, (s.nodes 3).vol.commit)) =
    some (.leader, 1) := by decide

/-- the guards are not trivially true: a second candidate cannot win term 1 with one vote -/
example : (run cfg3 State.init (demoTrace ++ [.becomeLeader 2 [2]])).isSome = false := by decide

/-- `sendReqVote` is for candidates only (the leader of the demo run cannot take it), and a vote can
only be granted on a request that is in the soup: campaigning alone does not put it there -/
example : (run cfg3 State.init (demoTrace ++ [.sendReqVote 1])).isSome = false := by decide
example : (run cfg3 State.init [.campaign 1, .updateTerm 3 1, .grant 3 1 0 0]).isSome = false := by
  decide
example : (run cfg3 State.init [.campaign 1, .sendReqVote 1, .sendReqVote 1, .updateTerm 3 1,
    .grant 3 1 0 0]).isSome = true := by decide

/-- every state produced by `run` from a reachable state is reachable -/
theorem reachable_of_run (cfg : Cfg) (s s' : State) (as : List Action) (hs : Reachable cfg s)
    (h : run cfg s as = some s') : Reachable cfg s' := by
  induction as generalizing s with
  | nil => simp only [run, Option.some.injEq] at h; exact h ▸ hs
  | cons a as ih =>
    simp only [run, step?] at h
    by_cases he : enabled cfg s a
    · rw [if_pos he] at h
      exact ih (apply s a) (Reachable.step s a hs he) h
    · rw [if_neg he] at h; simp at h

/-- the theorems apply to the demo run (and to every other run of the executable model) -/
example : ∀ s, run cfg3 State.init demoTrace = some s →
    ElectionSafety s ∧ LogMatching s ∧ LeaderCompleteness s ∧ StateMachineSafety s := by
  intro s hs
  have hr := reachable_of_run cfg3 _ s _ Reachable.init hs
  exact ⟨election_safety cfg3 cfg3_ok s hr, log_matching cfg3 cfg3_ok s hr,
    leader_completeness cfg3 cfg3_ok s hr, state_machine_safety cfg3 cfg3_ok s hr⟩

/-! ### Regression for SPEC_ISSUES.md, issue 1

The trace below was enabled in the model as originally written and ended with two different entries
committed at index 1.  With the `reqVotesCovered` conjunct in the guard of `becomeLeader` it is
rejected exactly at the second election (action 34, 0-based): the second candidacy's log `[]` is
strictly less up to date than the `(lastTerm 1, lastIdx 1)` advertised by the first request (which
node 2 did send before it crashed). -/

def issue1Trace : List Action := [
  .campaign 1, .sendReqVote 1, .write 1, .persist 1,
  .updateTerm 3 1, .grant 3 1 0 0, .write 3, .persist 3, .sendVote 3 1 1,
  .becomeLeader 1 [1, 3],
  .leaderAppend 1 7, .write 1, .persist 1,
  .sendApp 1 0 1 0,
  .updateTerm 2 1, .handleApp 2 1 0 0 [⟨1, 7⟩] 0,
  .handleApp 3 1 0 0 [⟨1, 7⟩] 0, .write 3, .persist 3, .sendAck 3 1 1,
  .leaderCommit 1 1 [1, 3],
  .campaign 2, .sendReqVote 2,
  .crash 2,
  .updateTerm 2 1, .campaign 2, .sendReqVote 2, .write 2, .persist 2,
  .updateTerm 3 2, .grant 3 2 1 1, .write 3, .persist 3, .sendVote 3 2 2,
  .becomeLeader 2 [2, 3]]

example : issue1Trace.length = 35 := by decide
example : (run cfg3 State.init (issue1Trace.take 34)).isSome = true := by decide
example : (run cfg3 State.init issue1Trace).isSome = false := by decide

/-- The guard only asks for "at least as up to date": node 2 campaigns for term 2 with an empty log
(request `(0,0)`, volatile, sent), crashes back to term 1, receives `(1,7)` from the term-1 leader,
campaigns for term 2 again (request `(1,1)`), node 3 answers the *first* request, and node 2 is
elected with the grown log — harmless, and enabled. -/
def regrowTrace : List Action := [
  .campaign 1, .sendReqVote 1, .write 1, .persist 1,
  .updateTerm 3 1, .grant 3 1 0 0, .write 3, .persist 3, .sendVote 3 1 1,
  .becomeLeader 1 [1, 3],
  .leaderAppend 1 7, .sendApp 1 0 1 0,
  .updateTerm 2 1, .write 2, .persist 2,
  .campaign 2, .sendReqVote 2, .crash 2,
  .handleApp 2 1 0 0 [⟨1, 7⟩] 0,
  .campaign 2, .sendReqVote 2, .write 2, .persist 2,
  .updateTerm 3 2, .grant 3 2 0 0, .write 3, .persist 3, .sendVote 3 2 2,
  .becomeLeader 2 [2, 3]]

example : (run cfg3 State.init regrowTrace).isSome = true := by decide
example : (run cfg3 State.init regrowTrace).map (fun s => (s.elected, s.glog 2)) =
    some ([(2, 2), (1, 1)], [⟨1, 7⟩]) := by decide

/-! ### A vote request that was created but never sent constrains nothing

The implementation creates the vote request at campaign time but hands it to the network only with
the next `Ready`.  Node 2 leads term 1 (elected by nodes 1 and 2) and appends `(1,7)`, `(1,8)`.
Node 3 joins term 1 durably, receives both entries (volatile only) and campaigns for term 2 — the
request `(lastTerm 1, lastIdx 2)` exists only inside the node — then crashes: back to term 1 with an
empty log.  It receives only `(1,7)`, campaigns for term 2 again, sends *this* request `(1,1)`, node 1
(whose log is empty) grants durably, node 3 persists its own vote and is elected with the log
`[(1,7)]`.  With `campaign` putting the request into the soup this run was rejected at the last
action (the first request is not covered by the shorter log); it is an execution now. -/

/-- up to the moment node 3 holds both entries (volatile) in term 1 -/
def unsentHead : List Action := [
  .campaign 2, .sendReqVote 2, .write 2, .persist 2,
  .updateTerm 1 1, .grant 1 2 0 0, .write 1, .persist 1, .sendVote 1 1 2,
  .becomeLeader 2 [1, 2],
  .leaderAppend 2 7, .leaderAppend 2 8, .sendApp 2 0 2 0, .sendApp 2 0 1 0,
  .updateTerm 3 1, .write 3, .persist 3,
  .handleApp 3 1 0 0 [⟨1, 7⟩, ⟨1, 8⟩] 0]

/-- crash of node 3, shorter log, second candidacy for term 2, election by nodes 1 and 3 -/
def unsentTail : List Action := [
  .crash 3,
  .handleApp 3 1 0 0 [⟨1, 7⟩] 0,
  .campaign 3, .sendReqVote 3, .write 3, .persist 3,
  .updateTerm 1 2, .grant 1 3 1 1, .write 1, .persist 1, .sendVote 1 2 3,
  .becomeLeader 3 [1, 3]]

/-- the first candidacy of node 3 (between `unsentHead` and `unsentTail`) never sends its request -/
def unsentRequestTrace : List Action := unsentHead ++ [.campaign 3] ++ unsentTail

example : (run cfg3 State.init unsentRequestTrace).isSome = true := by decide
example : (run cfg3 State.init unsentRequestTrace).map (fun s => (s.elected, s.glog 1, s.glog 2)) =
    some ([(2, 3), (1, 2)], [⟨1, 7⟩, ⟨1, 8⟩], [⟨1, 7⟩]) := by decide

/-- node 3 was candidate of term 2 twice, with the logs `[(1,7),(1,8)]` and `[(1,7)]`; only the
second request is in the soup -/
example : (run cfg3 State.init unsentRequestTrace).map (fun s => s.msgs.filter fun m =>
    match m with | .reqVote 2 _ _ _ => true | _ => false) = some [.reqVote 2 3 1 1] := by decide

/-- had the first candidacy sent its request `(1,2)`, the election with the shorter log would be
rejected (`reqVotesCovered`), exactly at the last action -/
def sentRequestTrace : List Action := unsentHead ++ [.campaign 3, .sendReqVote 3] ++ unsentTail

example : sentRequestTrace.length = 32 := by decide
example : (run cfg3 State.init (sentRequestTrace.take 31)).isSome = true := by decide
example : (run cfg3 State.init sentRequestTrace).isSome = false := by decide

/-- the theorems apply to this run -/
example : ∀ s, run cfg3 State.init unsentRequestTrace = some s →
    ElectionSafety s ∧ LogMatching s ∧ LeaderCompleteness s ∧ StateMachineSafety s := by
  intro s hs
  have hr := reachable_of_run cfg3 _ s _ Reachable.init hs
  exact ⟨election_safety cfg3 cfg3_ok s hr, log_matching cfg3 cfg3_ok s hr,
    leader_completeness cfg3 cfg3_ok s hr, state_machine_safety cfg3 cfg3_ok s hr⟩

end RaftVerif.Spec
