import RaftVerif.Props.NoPanic
import RaftVerif.Proofs.NoPanicFinal
/-!
# Props/NoPanicAll — no model call throws in any reachable state of the simulated cluster: ALL operations, unconditional

`NPKeeps` (the five preservation statements for the additional invariant `NPInv`) is instantiated by
`NoPanicP.npKeeps`, so `cluster_no_panic_all` of `Props/NoPanic.lean` holds without that hypothesis.
`NoPanicP.Done x`: `x` returned `.ok`, or only the harness complained about unused election-timeout draws (which it
does only after the model action has completed).
-/
namespace RaftVerif.NoPanic
open Sim Refine Simulation NoPanicP

/-- every reachable cluster is related to a reachable Spec state and satisfies the additional invariant `NPC` -/
theorem reachable_rsd_npc' (val : Val) {voters : List Id} {c0 c : Cluster} (hsorted : voters.Pairwise (· < ·))
    (hv0 : 0 ∉ voters) (hc : InitCluster voters c0) (h : CReachable c0 c) :
    ∃ s, RSD val voters c s ∧ NPC c :=
  reachable_rsd_npc (npKeeps val voters (hsorted.imp (fun h => Nat.ne_of_lt h))) hsorted hv0 hc h

/-- **C14, end to end, for the fragment.**  In every cluster reachable from an initial cluster (`voters` strictly
ascending, `0 ∉ voters`) — by deliveries in any order and multiplicity, ticks, proposals, campaigns,
`Ready`/persist/`Advance` rounds (with any draw lists) and crashes with restart — and for every live node `rn` and
every non-empty list of election-timeout draws, **no environment operation throws**: `tick`, `campaign`, `propose`,
`step` of any message of the network addressed to the node of kind MsgVote, MsgVoteResp, MsgApp, MsgHeartbeat,
MsgAppResp, MsgHeartbeatResp or (forwarded) MsgProp, the sync round `syncRound`, and `RawNode.new` on the node's own
storage with any valid configuration (`cfg.id = n`, `cfg.applied = 0`). -/
theorem cluster_no_panic_total {voters : List Id} {c0 c : Cluster} (hsorted : voters.Pairwise (· < ·))
    (hv0 : 0 ∉ voters) (hc : InitCluster voters c0) (h : CReachable c0 c)
    {n : Nat} {rn : RawNode} (hn : c.nodes n = some rn) (draws : List Nat) (hd : draws ≠ []) :
    Done (rn.tick draws) ∧ Done (rn.campaign draws) ∧ (∀ data, Done (rn.propose draws data)) ∧
    (∀ m ∈ c.net, m.to = n → CoveredNP m.typ ∨ CoveredNP2 m.typ → Done (rn.step draws m)) ∧
    Done (syncRound rn draws) ∧
    (∀ cfg : Config, cfg.id = n → cfg.applied = 0 → (∃ c', cfg.validate = .ok c') →
      ∃ rn', RawNode.new cfg rn.raft.log.storage draws = .ok rn') :=
  cluster_no_panic_all (npKeeps _ voters (hsorted.imp (fun h => Nat.ne_of_lt h))) hsorted hv0 hc h hn draws hd

/-- the covered kinds are exactly the kinds the environment of `Props/Simulation.lean` delivers -/
theorem covered_iff (t : MsgType) : Covered t ↔ CoveredNP t ∨ CoveredNP2 t := by
  unfold Covered Deliverable CoveredNP CoveredNP2
  constructor
  · rintro ((h | h | h | h | h | h) | h) <;> simp [h]
  · rintro ((h | h | h | h) | (h | h | h)) <;> simp [h]

end RaftVerif.NoPanic
