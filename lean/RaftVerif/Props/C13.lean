import RaftVerif.Proofs.ConfChangeExamples
import RaftVerif.Proofs.ConfChangeReachable
import RaftVerif.Props.C12
/-!
# C13  Configuration algebra keeps its invariants and round-trips through ConfState

Property theorems only.  Definitions used in the statements (all in `RaftVerif/Proofs/ConfChange*.lean`):

* `cfgMember cfg id`   : `id ∈ voters ∨ id ∈ outgoing ∨ id ∈ learners ∨ id ∈ learnersNext`
* `ConfInv cfg trk`    : exactly what Go `checkInvariants` checks (see `checkInvariants_iff`):
    every member has a progress record; every `learnersNext` id is an outgoing voter whose record is
    not marked learner; every `learners` id is in neither voter set and its record is marked learner;
    when not joint, `outgoing = none`, `learnersNext = none`, `autoLeave = false`.
    It does **not** say that non-members have no record, that lists are duplicate-free, or that
    `learnersNext` is disjoint from the incoming voters.
* `ConfWF cfg`         : `voters` strictly ascending; `outgoing/learners/learnersNext` strictly ascending
    and never `some []` (Go: `nil` map instead of empty map)
* `ConfInvStrong cfg trk` : `ConfInv ∧ ConfWF ∧ keys(progress)` strictly ascending `∧ keys = members ∧ voters ≠ []`
* `StagedDisjoint cfg` : no `learnersNext` id is an incoming voter (true of every reachable
    configuration, *not* checked by `checkInvariants`, needed for `LeaveJoint`/`Restore`)
* `ConfReach cfg trk`  : `ConfInvStrong ∧ StagedDisjoint ∧ ¬ cfgMember cfg 0` — holds of the empty-tracker
    bootstrap results and is preserved by all three operations (`*_preserves_reach`), i.e. it holds of
    every configuration reachable by any sequence of ConfChangeV2 operations
* `applyV2 c cc`       : the changer call of `raft.applyConfChange`: `leaveJoint` / `enterJoint` / `simple`
    chosen by `cc.leaveJoint` / `cc.enterJoint`
* `Reachable mi mb cfg trk` : inductive — result of `restoreConf` from an empty tracker for an
    *arbitrary* ConfState (what `newRaft` and snapshot restore do), closed under accepted `applyV2`
* `restoreStart mi mb li` : the changer `Restore` is started with (`Tracker.make`, i.e. empty config)
* `applyStep c s cc`   : one iteration of the loop of `Changer.apply`
* `sameButLearner p p'`: `p'` equals `p` in every field except possibly `isLearner`
* `freshProgress c b`  : the record `initProgress` creates (`match_ = 0`, `next = max lastIndex 1`,
    `recentActive = true`, empty inflights of the tracker's size limits, `isLearner = b`)

All statements are for arbitrary id lists (no bound on the universe of ids).
-/
namespace RaftVerif

/-! ## 1. what `checkInvariants` checks -/

/-- **C13 / checkInvariants**: the boolean check succeeds exactly on `ConfInv`. -/
theorem checkInvariants_iff (cfg : TrackerConfig) (trk : ProgressMap) :
    checkInvariants cfg trk = .ok () ↔ ConfInv cfg trk :=
  checkInvariants_ok_iff cfg trk

/-- the check is blind to stray progress records of non-members (so `ConfInv` alone does not give
"non-members have none") -/
example : checkInvariants { voters := [1] } [(1, {}), (7, {})] = .ok () := by rfl

/-- the check is blind to a staged learner that is also an incoming voter -/
example : checkInvariants { voters := [1, 2], outgoing := some [1, 2], learnersNext := some [2] }
    [(1, {}), (2, {})] = .ok () := by rfl

/-! ## 2. decision tables of `ConfChangeV2.EnterJoint` / `LeaveJoint` -/

/-- **enterJoint decision table**: for every transition value and every number of changes. -/
theorem enterJoint_decision_table (c : ConfChangeV2) :
    c.enterJoint =
      match c.transition with
      | .auto => if c.changes.length > 1 then some true else none
      | .jointImplicit => some true
      | .jointExplicit => some false := by
  unfold ConfChangeV2.enterJoint
  cases c.transition <;> simp

/-- `EnterJoint` says "no joint config needed" exactly for an `auto` change with at most one entry -/
theorem enterJoint_none_iff (c : ConfChangeV2) :
    c.enterJoint = none ↔ c.transition = .auto ∧ c.changes.length ≤ 1 := by
  rw [enterJoint_decision_table]
  cases c.transition <;> simp

/-- **leaveJoint decision**: exactly the empty `auto` change. -/
theorem leaveJoint_decision (c : ConfChangeV2) :
    c.leaveJoint = true ↔ c.transition = .auto ∧ c.changes = [] := by
  unfold ConfChangeV2.leaveJoint
  cases c.transition <;> simp

/-- a change that leaves a joint config never also asks to enter one -/
theorem leaveJoint_excludes_enterJoint (c : ConfChangeV2) (h : c.leaveJoint = true) :
    c.enterJoint = none := by
  obtain ⟨h1, h2⟩ := (leaveJoint_decision c).mp h
  exact (enterJoint_none_iff c).mpr ⟨h1, by simp [h2]⟩

/-! ## 3. accepted changes preserve the strong invariant -/

/-- **simple_preserves** -/
theorem simple_preserves (c : Changer) (ccs : List ConfChangeSingle) (cfg' : TrackerConfig) (trk' : ProgressMap)
    (hs : ConfInvStrong c.tracker.cfg c.tracker.progress)
    (h : c.simple ccs = .ok (cfg', trk')) : ConfInvStrong cfg' trk' :=
  simple_strong c ccs (cfg', trk') hs h

/-- **enterJoint_preserves** -/
theorem enterJoint_preserves (c : Changer) (autoLeave : Bool) (ccs : List ConfChangeSingle)
    (cfg' : TrackerConfig) (trk' : ProgressMap)
    (hs : ConfInvStrong c.tracker.cfg c.tracker.progress)
    (h : c.enterJoint autoLeave ccs = .ok (cfg', trk')) : ConfInvStrong cfg' trk' :=
  enterJoint_strong c autoLeave ccs (cfg', trk') hs h

/-- **leaveJoint_preserves** -/
theorem leaveJoint_preserves (c : Changer) (cfg' : TrackerConfig) (trk' : ProgressMap)
    (hs : ConfInvStrong c.tracker.cfg c.tracker.progress)
    (h : c.leaveJoint = .ok (cfg', trk')) : ConfInvStrong cfg' trk' :=
  leaveJoint_strong c (cfg', trk') hs h

/-- what `ConfInvStrong` gives, spelled out as in the property text: voters and learners disjoint,
every staged learner is an outgoing voter, every member has exactly one progress record and
non-members none, at least one voter remains. -/
theorem confInvStrong_spelled_out (cfg : TrackerConfig) (trk : ProgressMap) (h : ConfInvStrong cfg trk) :
    (∀ id ∈ cfg.learners.getD [], id ∉ cfg.voters ∧ id ∉ cfg.outgoing.getD []) ∧
    (∀ id ∈ cfg.learnersNext.getD [], id ∈ cfg.outgoing.getD []) ∧
    (∀ id, ((keys trk).count id = if cfgMember cfg id then 1 else 0)) ∧
    (∀ id, cfgMember cfg id ↔ ∃ pr, mapGet trk id = some pr) ∧
    0 < cfg.voters.length := by
  refine ⟨fun id hid => ⟨(h.inv.learners id hid).2.1, (h.inv.learners id hid).1⟩,
    fun id hid => (h.inv.learnersNext id hid).1, ?_, ?_, List.length_pos_iff.mpr h.votersNe⟩
  · intro id
    by_cases hm : cfgMember cfg id
    · rw [if_pos hm]
      rw [h.keysSorted.nodup.count, if_pos ((h.keysExact id).mpr hm)]
    · rw [if_neg hm]
      exact List.count_eq_zero.mpr (fun hk => hm ((h.keysExact id).mp hk))
  · intro id
    rw [← h.keysExact id]
    exact mem_keys_iff trk id

/-! ## 4. a simple change alters the incoming voter set by at most one -/

/-- **simple_symdiff_le_one** -/
theorem simple_symdiff_le_one (c : Changer) (ccs : List ConfChangeSingle) (cfg' : TrackerConfig)
    (trk' : ProgressMap) (h : c.simple ccs = .ok (cfg', trk')) :
    symdiff c.tracker.cfg.voters cfg'.voters ≤ 1 :=
  ((simple_ok_iff c ccs (cfg', trk')).mp h).2.2.2.2.1

/-- `symdiff` really is the size of the symmetric difference: spelled out for duplicate-free lists,
`symdiff a b ≤ 1` means that at most one id is in exactly one of the two lists. -/
theorem symdiff_le_one_iff (a b : List Id) (ha : a.Nodup) (hb : b.Nodup) :
    symdiff a b ≤ 1 ↔
      ∀ x y, ((x ∈ a ∧ x ∉ b) ∨ (x ∈ b ∧ x ∉ a)) → ((y ∈ a ∧ y ∉ b) ∨ (y ∈ b ∧ y ∉ a)) → x = y :=
  symdiff_le_one_iff_aux a b ha hb

/-- a simple change is only ever applied to, and only ever yields, a non-joint configuration -/
theorem simple_nonjoint (c : Changer) (ccs : List ConfChangeSingle) (cfg' : TrackerConfig)
    (trk' : ProgressMap) (h : c.simple ccs = .ok (cfg', trk')) :
    c.tracker.cfg.outgoing = none ∧ cfg'.outgoing = none := by
  obtain ⟨hci, hj, hr, _⟩ := (simple_ok_iff c ccs (cfg', trk')).mp h
  have hi := (checkInvariants_ok_iff _ _).mp hci
  have h0 : c.tracker.cfg.outgoing = none := (hi.nonJoint (by simpa [joint] using hj)).1
  refine ⟨h0, ?_⟩
  have := (fold_outgoing c ccs (c.tracker.cfg.clone, c.tracker.progress)).1
  rw [← hr] at this
  exact this.trans h0

/-! ## 5. rejected changes -/

/-- **rejected_returns_no_config**.  In the model a `Changer` is a value and `simple / enterJoint /
leaveJoint` are pure functions into `Except String (TrackerConfig × ProgressMap)`: there is no
mutable tracker they could damage (Go: they work on `checkAndCopy`'s deep copy).  So "a rejected
change leaves the input untouched" is the statement that an `.error` result carries no
configuration at all — trivial, but stated explicitly. -/
theorem rejected_returns_no_config {α : Type} (r : CE α) (e : String) (h : r = .error e) :
    ∀ a, r ≠ .ok a := by
  intro a h'; rw [h] at h'; cases h'

theorem simple_rejected (c : Changer) (ccs : List ConfChangeSingle) (e : String)
    (h : c.simple ccs = .error e) : ∀ cfg' trk', c.simple ccs ≠ .ok (cfg', trk') :=
  fun cfg' trk' => rejected_returns_no_config _ e h (cfg', trk')

theorem enterJoint_rejected (c : Changer) (al : Bool) (ccs : List ConfChangeSingle) (e : String)
    (h : c.enterJoint al ccs = .error e) : ∀ cfg' trk', c.enterJoint al ccs ≠ .ok (cfg', trk') :=
  fun cfg' trk' => rejected_returns_no_config _ e h (cfg', trk')

theorem leaveJoint_rejected (c : Changer) (e : String)
    (h : c.leaveJoint = .error e) : ∀ cfg' trk', c.leaveJoint ≠ .ok (cfg', trk') :=
  fun cfg' trk' => rejected_returns_no_config _ e h (cfg', trk')

/-- an input that violates `checkInvariants` is rejected by all three operations -/
theorem invalid_input_rejected (c : Changer) (al : Bool) (ccs : List ConfChangeSingle)
    (h : ¬ ConfInv c.tracker.cfg.clone c.tracker.progress) :
    (∀ r, c.simple ccs ≠ .ok r) ∧ (∀ r, c.enterJoint al ccs ≠ .ok r) ∧ (∀ r, c.leaveJoint ≠ .ok r) := by
  refine ⟨fun r hr => ?_, fun r hr => ?_, fun r hr => ?_⟩
  · exact h ((checkInvariants_ok_iff _ _).mp ((simple_ok_iff c ccs r).mp hr).1)
  · exact h ((checkInvariants_ok_iff _ _).mp ((enterJoint_ok_iff c al ccs r).mp hr).1)
  · exact h ((checkInvariants_ok_iff _ _).mp ((leaveJoint_ok_iff c r).mp hr).1)

/-- **exact acceptance condition of `Simple`** on a valid configuration: the only reasons for
rejection are "joint", "removed all voters" and "more than one voter changed" — the final
`checkInvariants` can never fail. -/
theorem simple_accepts_iff (c : Changer) (ccs : List ConfChangeSingle) (r : TrackerConfig × ProgressMap)
    (hs : ConfInvStrong c.tracker.cfg c.tracker.progress) :
    c.simple ccs = .ok r ↔
      c.tracker.cfg.outgoing = none ∧
      r = ccs.foldl (applyStep c) (c.tracker.cfg.clone, c.tracker.progress) ∧
      r.1.voters ≠ [] ∧ symdiff c.tracker.cfg.voters r.1.voters ≤ 1 :=
  simple_accepts_iff_aux c ccs r hs

/-- **exact acceptance condition of `EnterJoint`** on a valid configuration. -/
theorem enterJoint_accepts_iff (c : Changer) (al : Bool) (ccs : List ConfChangeSingle)
    (r : TrackerConfig × ProgressMap) (hs : ConfInvStrong c.tracker.cfg c.tracker.progress) :
    c.enterJoint al ccs = .ok r ↔
      c.tracker.cfg.outgoing = none ∧
      (enterJointFold c ccs).1.voters ≠ [] ∧
      r = ({ (enterJointFold c ccs).1 with autoLeave := al }, (enterJointFold c ccs).2) :=
  enterJoint_accepts_iff_aux c al ccs r hs

/-- **exact acceptance condition of `LeaveJoint`** on a valid configuration whose staged learners are
not incoming voters: it succeeds exactly on joint configurations. -/
theorem leaveJoint_accepts_iff (c : Changer) (r : TrackerConfig × ProgressMap)
    (hs : ConfInvStrong c.tracker.cfg c.tracker.progress) (hd : StagedDisjoint c.tracker.cfg) :
    c.leaveJoint = .ok r ↔ c.tracker.cfg.outgoing ≠ none ∧ r = leaveJointResult c :=
  leaveJoint_accepts_iff_aux c r hs hd

/-! ## 6. progress records -/

/-- **existing_progress_kept (general form)**: after an accepted simple change every progress record
is an old record or a freshly initialised one, up to the `isLearner` flag.  (A record can be *reset*
by one change: `[removeNode x, addNode x]` is an accepted simple change that erases and recreates
`x`'s record — exactly as in Go — which is why the unconditional "kept" statement is false and the
conditional one below needs "not the target of a `removeNode`".) -/
theorem simple_progress_origin (c : Changer) (ccs : List ConfChangeSingle) (cfg' : TrackerConfig)
    (trk' : ProgressMap) (h : c.simple ccs = .ok (cfg', trk')) (id : Id) (p' : Progress)
    (hp' : mapGet trk' id = some p') :
    (∃ p, mapGet c.tracker.progress id = some p ∧ sameButLearner p p') ∨
    p' = freshProgress c p'.isLearner := by
  have hr := ((simple_ok_iff c ccs (cfg', trk')).mp h).2.2.1
  have : trk' = (ccs.foldl (applyStep c) (c.tracker.cfg.clone, c.tracker.progress)).2 := by rw [← hr]
  rw [this] at hp'
  exact fold_origin c ccs _ id p' hp'

/-- **existing_progress_kept**: an id that has a record before an accepted simple change and is not
the target of a `removeNode` in it still has a record, equal to the old one except possibly for
`isLearner`. -/
theorem existing_progress_kept (c : Changer) (ccs : List ConfChangeSingle) (cfg' : TrackerConfig)
    (trk' : ProgressMap) (h : c.simple ccs = .ok (cfg', trk')) (id : Id) (p : Progress)
    (hp : mapGet c.tracker.progress id = some p)
    (hnr : ∀ cc ∈ ccs, ¬ (cc.typ = .removeNode ∧ cc.nodeId = id)) :
    ∃ p', mapGet trk' id = some p' ∧ sameButLearner p p' := by
  have hr := ((simple_ok_iff c ccs (cfg', trk')).mp h).2.2.1
  have : trk' = (ccs.foldl (applyStep c) (c.tracker.cfg.clone, c.tracker.progress)).2 := by rw [← hr]
  rw [this]
  exact fold_kept c ccs _ id p hnr hp

/-- **new ids get a fresh record**: `match_ = 0`, `next = max lastIndex 1`, `recentActive = true`,
probe state, nothing in flight, inflight limits taken from the tracker. -/
theorem new_progress_fresh (c : Changer) (ccs : List ConfChangeSingle) (cfg' : TrackerConfig)
    (trk' : ProgressMap) (h : c.simple ccs = .ok (cfg', trk')) (id : Id) (p' : Progress)
    (hnew : mapGet c.tracker.progress id = none) (hp' : mapGet trk' id = some p') :
    p'.match_ = 0 ∧ p'.next = max c.lastIndex 1 ∧ p'.recentActive = true ∧ p'.state = .probe ∧
    p'.sentCommit = 0 ∧ p'.pendingSnapshot = 0 ∧ p'.msgAppFlowPaused = false ∧
    p'.inflights = { size := c.tracker.maxInflight, maxBytes := c.tracker.maxInflightBytes, q := [] } := by
  rcases simple_progress_origin c ccs cfg' trk' h id p' hp' with ⟨p, hp, _⟩ | hf
  · rw [hnew] at hp; cases hp
  · rw [hf]; exact ⟨rfl, rfl, rfl, rfl, rfl, rfl, rfl, rfl⟩

/-- the same three facts for `EnterJoint`; here *every* old voter keeps its record (it stays an
outgoing voter), even if the change removes it -/
theorem enterJoint_progress_origin (c : Changer) (al : Bool) (ccs : List ConfChangeSingle)
    (cfg' : TrackerConfig) (trk' : ProgressMap) (h : c.enterJoint al ccs = .ok (cfg', trk'))
    (id : Id) (p' : Progress) (hp' : mapGet trk' id = some p') :
    (∃ p, mapGet c.tracker.progress id = some p ∧ sameButLearner p p') ∨
    p' = freshProgress c p'.isLearner := by
  have hr := ((enterJoint_ok_iff c al ccs (cfg', trk')).mp h).2.2.2.2.1
  have : trk' = (enterJointFold c ccs).2 := (Prod.mk.inj hr).2
  rw [this] at hp'
  exact fold_origin c ccs _ id p' hp'

theorem enterJoint_existing_progress_kept (c : Changer) (al : Bool) (ccs : List ConfChangeSingle)
    (cfg' : TrackerConfig) (trk' : ProgressMap) (h : c.enterJoint al ccs = .ok (cfg', trk'))
    (id : Id) (p : Progress) (hp : mapGet c.tracker.progress id = some p)
    (hnr : ∀ cc ∈ ccs, ¬ (cc.typ = .removeNode ∧ cc.nodeId = id)) :
    ∃ p', mapGet trk' id = some p' ∧ sameButLearner p p' := by
  have hr := ((enterJoint_ok_iff c al ccs (cfg', trk')).mp h).2.2.2.2.1
  have : trk' = (enterJointFold c ccs).2 := (Prod.mk.inj hr).2
  rw [this]
  exact fold_kept c ccs _ id p hnr hp

/-- `LeaveJoint` creates no record and changes surviving ones at most in `isLearner` -/
theorem leaveJoint_progress_kept (c : Changer) (cfg' : TrackerConfig) (trk' : ProgressMap)
    (h : c.leaveJoint = .ok (cfg', trk')) (id : Id) (p' : Progress) (hp' : mapGet trk' id = some p') :
    ∃ p, mapGet c.tracker.progress id = some p ∧ sameButLearner p p' := by
  have hr := ((leaveJoint_ok_iff c (cfg', trk')).mp h).2.2.1
  have : trk' = (leaveJointResult c).2 := by rw [← hr]
  rw [this, (leaveJointResult_spec c).2.2.2.2.2.2.1 id] at hp'
  split at hp'
  · cases hp'
  · split at hp'
    · cases hq : mapGet c.tracker.progress id with
      | none => rw [hq] at hp'; cases hp'
      | some q =>
        rw [hq] at hp'
        simp only [Option.map_some, Option.some.injEq] at hp'
        exact ⟨q, rfl, by rw [← hp']; exact sameButLearner_set q true⟩
    · exact ⟨p', hp', sameButLearner_refl _⟩

/-! ## 7. quorum facts used by the global safety proof -/

/-- **simple_change_quorums_intersect**: if `cfg'` results from an accepted simple change of a valid
configuration, any majority of the old voters and any majority of the new voters share a member. -/
theorem simple_change_quorums_intersect (c : Changer) (ccs : List ConfChangeSingle) (cfg' : TrackerConfig)
    (trk' : ProgressMap) (hs : ConfInvStrong c.tracker.cfg c.tracker.progress)
    (h : c.simple ccs = .ok (cfg', trk')) (p q : Id → Bool)
    (hp : c.tracker.cfg.voters.length < 2 * c.tracker.cfg.voters.countP p)
    (hq : cfg'.voters.length < 2 * cfg'.voters.countP q) :
    ∃ v, v ∈ c.tracker.cfg.voters ∧ v ∈ cfg'.voters ∧ p v = true ∧ q v = true :=
  symdiff_quorums_intersect _ _ hs.wf.voters.nodup (simple_strong c ccs (cfg', trk') hs h).wf.voters.nodup
    (simple_symdiff_le_one c ccs cfg' trk' h) p q hp hq

/-- **joint_quorum_covers_both**: a vote assignment that wins a joint configuration wins each half:
a strict majority of the incoming voters said yes, and (when there are outgoing voters) a strict
majority of those too. -/
theorem joint_quorum_covers_both (voters outgoing : List Id) (votes : Id → Option Bool)
    (h : Quorum.jointVote voters outgoing votes = .won) :
    (voters = [] ∨ voters.length < 2 * Quorum.yesCount voters votes) ∧
    (outgoing = [] ∨ outgoing.length < 2 * Quorum.yesCount outgoing votes) := by
  obtain ⟨h1, h2⟩ := (Quorum.joint_vote_spec voters outgoing votes).1.mp h
  exact ⟨(Quorum.majority_vote_spec voters votes).1.mp h1, (Quorum.majority_vote_spec outgoing votes).1.mp h2⟩

/-- for a valid joint configuration both halves are non-empty, so a winning vote is a strict
majority of the incoming *and* of the outgoing voters -/
theorem joint_quorum_covers_both_strong (cfg : TrackerConfig) (trk : ProgressMap) (hs : ConfInvStrong cfg trk)
    (hj : cfg.outgoing ≠ none) (votes : Id → Option Bool)
    (h : Quorum.jointVote cfg.voters (cfg.outgoing.getD []) votes = .won) :
    cfg.voters.length < 2 * Quorum.yesCount cfg.voters votes ∧
    (cfg.outgoing.getD []).length < 2 * Quorum.yesCount (cfg.outgoing.getD []) votes := by
  obtain ⟨h1, h2⟩ := joint_quorum_covers_both _ _ votes h
  refine ⟨h1.resolve_left hs.votersNe, h2.resolve_left ?_⟩
  exact fun e => hj ((outgoing_none_iff hs.wf.outgoing).mpr e)

/-- entering a joint configuration keeps the old voters as the outgoing half … -/
theorem enterJoint_outgoing_eq (c : Changer) (al : Bool) (ccs : List ConfChangeSingle)
    (cfg' : TrackerConfig) (trk' : ProgressMap) (h : c.enterJoint al ccs = .ok (cfg', trk')) :
    cfg'.outgoing = some c.tracker.cfg.voters ∧ cfg'.autoLeave = al := by
  have hr := ((enterJoint_ok_iff c al ccs (cfg', trk')).mp h).2.2.2.2.1
  have h3 := (fold_outgoing c ccs
    ({ c.tracker.cfg.clone with outgoing := some c.tracker.cfg.clone.voters }, c.tracker.progress)).1
  have e : cfg' = { (enterJointFold c ccs).1 with autoLeave := al } := (Prod.mk.inj hr).1
  rw [e]
  exact ⟨h3, rfl⟩

/-- … so every quorum of the new joint configuration contains a majority of the old voters, and
therefore meets every majority of the old configuration -/
theorem enterJoint_quorums_intersect (c : Changer) (al : Bool) (ccs : List ConfChangeSingle)
    (cfg' : TrackerConfig) (trk' : ProgressMap) (hs : ConfInvStrong c.tracker.cfg c.tracker.progress)
    (h : c.enterJoint al ccs = .ok (cfg', trk')) (votes : Id → Option Bool) (p : Id → Bool)
    (hw : Quorum.jointVote cfg'.voters (cfg'.outgoing.getD []) votes = .won)
    (hp : c.tracker.cfg.voters.length < 2 * c.tracker.cfg.voters.countP p) :
    ∃ v ∈ c.tracker.cfg.voters, votes v = some true ∧ p v = true := by
  have ho := (enterJoint_outgoing_eq c al ccs cfg' trk' h).1
  rw [ho] at hw
  obtain ⟨_, h2⟩ := joint_quorum_covers_both _ _ votes hw
  have h2' := h2.resolve_left hs.votersNe
  obtain ⟨v, hv, h3, h4⟩ := Quorum.quorum_intersect c.tracker.cfg.voters (fun id => votes id == some true) p
    h2' hp
  exact ⟨v, hv, by simpa using h3, h4⟩

/-- leaving a joint configuration keeps the incoming voters, so every quorum of the joint
configuration is a majority of the configuration left behind -/
theorem leaveJoint_voters_eq (c : Changer) (cfg' : TrackerConfig) (trk' : ProgressMap)
    (h : c.leaveJoint = .ok (cfg', trk')) :
    cfg'.voters = c.tracker.cfg.voters ∧ cfg'.outgoing = none ∧ cfg'.learnersNext = none ∧
    cfg'.autoLeave = false ∧
    (∀ x, x ∈ cfg'.learners.getD [] ↔
      x ∈ c.tracker.cfg.learnersNext.getD [] ∨ x ∈ c.tracker.cfg.learners.getD []) := by
  have hr := ((leaveJoint_ok_iff c (cfg', trk')).mp h).2.2.1
  have e : cfg' = (leaveJointResult c).1 := by rw [← hr]
  obtain ⟨h1, h2, h3, h4, h5, _⟩ := leaveJointResult_spec c
  rw [e]
  exact ⟨h1, h2, h3, h4, h5⟩

/-! ## 8. reachable configurations and the `Restore` round trip -/

/-- **reachability invariant**: besides `ConfInvStrong`, accepted changes preserve "staged learners
are not incoming voters" and "no id is 0" (`apply` skips zero ids). -/
theorem simple_preserves_reach (c : Changer) (ccs : List ConfChangeSingle) (cfg' : TrackerConfig)
    (trk' : ProgressMap) (hs : ConfReach c.tracker.cfg c.tracker.progress)
    (h : c.simple ccs = .ok (cfg', trk')) : ConfReach cfg' trk' :=
  simple_reach c ccs (cfg', trk') hs h

theorem enterJoint_preserves_reach (c : Changer) (al : Bool) (ccs : List ConfChangeSingle)
    (cfg' : TrackerConfig) (trk' : ProgressMap) (hs : ConfReach c.tracker.cfg c.tracker.progress)
    (h : c.enterJoint al ccs = .ok (cfg', trk')) : ConfReach cfg' trk' :=
  enterJoint_reach c al ccs (cfg', trk') hs h

theorem leaveJoint_preserves_reach (c : Changer) (cfg' : TrackerConfig) (trk' : ProgressMap)
    (hs : ConfReach c.tracker.cfg c.tracker.progress)
    (h : c.leaveJoint = .ok (cfg', trk')) : ConfReach cfg' trk' :=
  leaveJoint_reach c (cfg', trk') hs h

/-- base case: the first accepted change applied to the empty tracker (how a cluster is
bootstrapped) yields a configuration satisfying the reachability invariant. -/
theorem bootstrap_reach (mi mb li : Nat) (ccs : List ConfChangeSingle) (cfg' : TrackerConfig)
    (trk' : ProgressMap)
    (h : ({ tracker := Tracker.make mi mb, lastIndex := li } : Changer).simple ccs = .ok (cfg', trk')) :
    ConfReach cfg' trk' :=
  simple_reach_empty mi mb li ccs (cfg', trk') h

/-- **restore_exact**: restoring (from an empty tracker, any inflight limits, any last index) from the
ConfState of a reachable configuration succeeds and reproduces *the same* `TrackerConfig`, with a
progress map that again satisfies the strong invariant. -/
theorem restore_reproduces_config (t : Tracker) (hs : ConfReach t.cfg t.progress) (mi mb li : Nat) :
    ∃ trk', restoreConf { tracker := Tracker.make mi mb, lastIndex := li } t.confState = .ok (t.cfg, trk') ∧
      ConfInvStrong t.cfg trk' :=
  restore_exact t hs mi mb li

/-- **restore_roundtrip**: `Restore` from `t.confState` succeeds, and the ConfState of whatever it
returns is `Equivalent` to the input ConfState (both argument orders; the node model calls
`cs.equivalent cs2` with the input first). -/
theorem restore_roundtrip (t : Tracker) (hs : ConfReach t.cfg t.progress) (mi mb li : Nat) :
    (∃ r, restoreConf { tracker := Tracker.make mi mb, lastIndex := li } t.confState = .ok r) ∧
    ∀ cfg' trk', restoreConf { tracker := Tracker.make mi mb, lastIndex := li } t.confState = .ok (cfg', trk') →
      ConfState.equivalent t.confState
        (Tracker.confState { cfg := cfg', progress := trk', maxInflight := mi, maxInflightBytes := mb }) = true ∧
      ConfState.equivalent
        (Tracker.confState { cfg := cfg', progress := trk', maxInflight := mi, maxInflightBytes := mb })
        t.confState = true := by
  obtain ⟨trk0, h0, _⟩ := restore_exact t hs mi mb li
  refine ⟨⟨_, h0⟩, fun cfg' trk' h => ?_⟩
  have e : cfg' = t.cfg := by
    have := h.symm.trans h0
    exact (Prod.mk.inj (Except.ok.inj this)).1
  subst e
  exact ⟨confState_equivalent_refl _, confState_equivalent_refl _⟩

/-- **every reachable configuration is valid**: a configuration obtained by `Restore` from an
arbitrary ConfState followed by any sequence of accepted ConfChangeV2 operations (no-op / zero-id
changes, duplicates, rejected attempts in between …) is either the empty configuration of a node
that has not been given one yet, or satisfies the strong invariant together with
`StagedDisjoint` and "no zero id". -/
theorem reachable_valid (mi mb : Nat) (cfg : TrackerConfig) (trk : ProgressMap)
    (h : Reachable mi mb cfg trk) : (cfg = {} ∧ trk = []) ∨ ConfReach cfg trk :=
  reachable_inv h

/-- **C13, last sentence**: restoring from the ConfState of any reachable configuration succeeds and
reproduces an equivalent (indeed identical) configuration. -/
theorem reachable_restore_roundtrip (mi mb : Nat) (cfg : TrackerConfig) (trk : ProgressMap)
    (h : Reachable mi mb cfg trk) (votes : List (Id × Bool)) (mi' mb' li : Nat) :
    let t : Tracker := { cfg := cfg, progress := trk, votes := votes, maxInflight := mi, maxInflightBytes := mb }
    (∃ trk', restoreConf { tracker := Tracker.make mi' mb', lastIndex := li } t.confState = .ok (cfg, trk')) ∧
    ∀ cfg' trk', restoreConf { tracker := Tracker.make mi' mb', lastIndex := li } t.confState = .ok (cfg', trk') →
      ConfState.equivalent t.confState
        (Tracker.confState { cfg := cfg', progress := trk', maxInflight := mi', maxInflightBytes := mb' }) = true ∧
      ConfState.equivalent
        (Tracker.confState { cfg := cfg', progress := trk', maxInflight := mi', maxInflightBytes := mb' })
        t.confState = true := by
  intro t
  have hex : ∃ trk', restoreConf { tracker := Tracker.make mi' mb', lastIndex := li } t.confState =
      .ok (cfg, trk') := by
    rcases reachable_inv h with ⟨e1, e2⟩ | hreach
    · subst e1; exact ⟨[], restore_empty mi' mb' li⟩
    · obtain ⟨trk', h1, _⟩ := restore_exact t hreach mi' mb' li
      exact ⟨trk', h1⟩
  refine ⟨hex, fun cfg' trk' h' => ?_⟩
  obtain ⟨trk0, h0⟩ := hex
  have e : cfg' = cfg := (Prod.mk.inj (Except.ok.inj (h'.symm.trans h0))).1
  subst e
  exact ⟨confState_equivalent_refl _, confState_equivalent_refl _⟩

/-- `Reachable` is inhabited by interesting configurations: the joint configuration with a staged
learner is reached by restoring `{1,2,3}` and applying one `auto` ConfChangeV2 with two changes -/
example : ∃ trk, Reachable 8 0 exJointCfg trk :=
  ⟨_, Reachable.change { voters := [1, 2, 3] } _ [] 5 { transition := .auto, changes := exChanges } _ _
        (Reachable.restore 5 { voters := [1, 2, 3] } _ _ rfl) rfl⟩

/-- both extra hypotheses of the round trip are necessary: `exBad` passes `checkInvariants` but has a
staged learner among the incoming voters, and restoring from its ConfState loses voter 2 … -/
example : (restoreConf (restoreStart 0 0 0) exBad.tracker.confState).toOption.map (·.1.voters) = some [1] ∧
    exBad.tracker.cfg.voters = [1, 2] := by decide
/-- … and a ConfState naming id 0 cannot be restored at all -/
example : (restoreConf (restoreStart 0 0 0) { voters := [0, 1] }).toOption = none := by decide
/-- the joint example configuration does round-trip (to the identical config), all records fresh -/
example : (restoreConf (restoreStart 8 0 7) exJoint.tracker.confState).toOption.map (·.1) = some exJointCfg := by
  decide
example : ConfReach exJoint.tracker.cfg exJoint.tracker.progress := by
  refine ⟨⟨(checkInvariants_iff _ _).mp (by rfl), ⟨by decide, by decide, by decide, by decide⟩,
    by decide, ?_, by decide⟩, ?_, ?_⟩
  · intro id; simp [exJoint, exJointCfg, exJointTrk, keys, cfgMember]; omegaId
  · intro id hid; simp [exJoint, exJointCfg] at hid ⊢; omegaId
  · simp [exJoint, exJointCfg, cfgMember]

/-! ## 9. non-vacuity: concrete configurations (`Proofs/ConfChangeExamples.lean`) -/

/-- the hypotheses of the preservation theorems are satisfiable: a plain three-voter configuration … -/
example : ConfInvStrong exBase.tracker.cfg exBase.tracker.progress := by
  refine ⟨(checkInvariants_iff _ _).mp (by rfl), ⟨by decide, by decide, by decide, by decide⟩,
    by decide, ?_, by decide⟩
  intro id; simp [exBase, keys, cfgMember]

/-- … and a joint configuration with a `learnersNext` member -/
example : ConfInvStrong exJoint.tracker.cfg exJoint.tracker.progress ∧ StagedDisjoint exJoint.tracker.cfg := by
  refine ⟨⟨(checkInvariants_iff _ _).mp (by rfl), ⟨by decide, by decide, by decide, by decide⟩,
    by decide, ?_, by decide⟩, ?_⟩
  · intro id; simp [exJoint, exJointCfg, exJointTrk, keys, cfgMember]; omegaId
  · intro id hid; simp [exJoint, exJointCfg] at hid ⊢; omegaId

/-- `EnterJoint` on the three-voter configuration is accepted and produces that joint configuration -/
example : (exBase.enterJoint true exChanges).toOption.map (·.1) = some exJointCfg := by decide
example : (exBase.enterJoint true exChanges).toOption.map (fun r => keys r.2) = some [1, 2, 3, 4] := by decide

/-- the same change as a *simple* change is rejected (two voters would change) … -/
example : (exBase.simple exChanges).toOption = none := by decide
/-- … while a one-voter simple change is accepted -/
example : (exBase.simple [{ typ := .addNode, nodeId := 4 }]).toOption.map (·.1) =
    some { voters := [1, 2, 3, 4] } := by decide
/-- zero ids are ignored, duplicates are harmless, remove-then-add is a (record-resetting) no-op on voters -/
example : (exBase.simple [{ typ := .addNode, nodeId := 0 }, { typ := .addNode, nodeId := 2 },
    { typ := .removeNode, nodeId := 3 }, { typ := .addNode, nodeId := 3 }]).toOption.map (·.1) =
    some { voters := [1, 2, 3] } := by decide
example : ((exBase.simple [{ typ := .removeNode, nodeId := 3 }, { typ := .addNode, nodeId := 3 }]).toOption.map
    (fun r => (mapGet r.2 3).map (·.next))) = some (some 5) := by decide
/-- removing every voter is rejected -/
example : (exBase.enterJoint false [{ typ := .removeNode, nodeId := 1 }, { typ := .removeNode, nodeId := 2 },
    { typ := .removeNode, nodeId := 3 }]).toOption = none := by decide

/-- `LeaveJoint` on the joint configuration promotes the staged learner and drops nobody else -/
example : exJoint.leaveJoint.toOption.map (·.1) = some { voters := [1, 2, 4], learners := some [3] } := by decide
example : exJoint.leaveJoint.toOption.map (fun r => (keys r.2, (mapGet r.2 3).map (·.isLearner))) =
    some ([1, 2, 3, 4], some true) := by decide
/-- demotion *during* the joint state is rejected (already joint), as is a second `EnterJoint` -/
example : (exJoint.simple [{ typ := .addLearnerNode, nodeId := 4 }]).toOption = none := by decide
example : (exJoint.enterJoint true []).toOption = none := by decide
/-- leaving a non-joint configuration is rejected -/
example : exBase.leaveJoint.toOption = none := by decide

/-- `StagedDisjoint` is a real extra hypothesis: this configuration passes `checkInvariants`, is
joint, but `LeaveJoint` rejects it (its final check finds 2 in both `Learners` and `Voters[0]`) -/
example : checkInvariants exBad.tracker.cfg exBad.tracker.progress = .ok () ∧
    exBad.leaveJoint.toOption = none := ⟨by rfl, by decide⟩

/-- decision table instances -/
example : ({ transition := .auto, changes := [] } : ConfChangeV2).enterJoint = none ∧
    ({ transition := .auto, changes := [] } : ConfChangeV2).leaveJoint = true := by decide
example : ({ transition := .auto, changes := exChanges } : ConfChangeV2).enterJoint = some true := by decide
example : ({ transition := .jointExplicit, changes := [] } : ConfChangeV2).enterJoint = some false ∧
    ({ transition := .jointExplicit, changes := [] } : ConfChangeV2).leaveJoint = false := by decide

end RaftVerif
