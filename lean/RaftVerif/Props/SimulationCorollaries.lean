import RaftVerif.Proofs.SimCorMore
/-!
# Props/SimulationCorollaries — the protocol-level theorems, transferred to the cluster of model nodes

Property theorems only (machinery: `Proofs/SimCor*.lean`).  Every theorem is about a cluster `c` of model `RawNode`s
reachable (`Simulation.CReachable`, by the environment steps `Simulation.EnvStep`: deliveries in any order and
multiplicity, ticks, proposals, campaigns, `Ready`/persist/`Advance` rounds, crashes with restart) from an initial
cluster (`Simulation.InitCluster voters c0`) over a strictly ascending, non-empty voter list without the id 0 — the
hypotheses of the simulation theorem `Simulation.cluster_simulates`, whose restrictions (static membership, no
learners, no PreVote / transfer / ReadIndex; CheckQuorum free, no snapshots, sync storage writes) therefore apply.

The statements mention model states only:
* a node's log is `rn.raft.log.abs.ents` (nothing is compacted: the entry with index `i` is `ents[i - 1]?`),
* its stable storage is `rn.raft.log.storage` (entries `….storage.abs.ents`, hard state `….storage.hardState.getD {}`),
* its current hard state is `(rn.raft.term, rn.raft.vote, rn.raft.log.committed)` (= `RawNode.hardState rn.raft`).
-/
namespace RaftVerif.SimCor
open Sim Refine Simulation SimCorP

/-! ## C03 log matching -/

/-- **C03 log matching**: if the logs of two live nodes hold entries of the same term at index `i`, the logs agree
entry-wise (term, type, data, index) on `1..i` -/
theorem cluster_log_matching {voters : List Id} {c0 c : Cluster} (hsorted : voters.Pairwise (· < ·))
    (h0 : 0 ∉ voters) (hne : voters ≠ []) (hc : InitCluster voters c0) (h : CReachable c0 c)
    {a b : Nat} {ra rb : RawNode} (ha : c.nodes a = some ra) (hb : c.nodes b = some rb)
    {i : Nat} (hi : 1 ≤ i) {e e' : Entry} (he : ra.raft.log.abs.ents[i - 1]? = some e)
    (he' : rb.raft.log.abs.ents[i - 1]? = some e') (ht : e.term = e'.term) {j : Nat} (hj : 1 ≤ j) (hji : j ≤ i) :
    ∃ x y, ra.raft.log.abs.ents[j - 1]? = some x ∧ rb.raft.log.abs.ents[j - 1]? = some y ∧
      x.term = y.term ∧ x.typ = y.typ ∧ x.data = y.data ∧ x.index = j ∧ y.index = j :=
  log_matching_views ⟨hsorted, h0, hne, hc, h⟩ ha hb false false hi he he' ht hj hji

/-- **C03 log matching, durable version**: the same for the *stable storage* of node `a` against the log of node `b`
(`a = b` allowed: a node's storage against its own log) -/
theorem cluster_log_matching_durable {voters : List Id} {c0 c : Cluster} (hsorted : voters.Pairwise (· < ·))
    (h0 : 0 ∉ voters) (hne : voters ≠ []) (hc : InitCluster voters c0) (h : CReachable c0 c)
    {a b : Nat} {ra rb : RawNode} (ha : c.nodes a = some ra) (hb : c.nodes b = some rb)
    {i : Nat} (hi : 1 ≤ i) {e e' : Entry} (he : ra.raft.log.storage.abs.ents[i - 1]? = some e)
    (he' : rb.raft.log.abs.ents[i - 1]? = some e') (ht : e.term = e'.term) {j : Nat} (hj : 1 ≤ j) (hji : j ≤ i) :
    ∃ x y, ra.raft.log.storage.abs.ents[j - 1]? = some x ∧ rb.raft.log.abs.ents[j - 1]? = some y ∧
      x.term = y.term ∧ x.typ = y.typ ∧ x.data = y.data ∧ x.index = j ∧ y.index = j :=
  log_matching_views ⟨hsorted, h0, hne, hc, h⟩ ha hb true false hi he he' ht hj hji

/-- **C03 log matching, storage against storage** -/
theorem cluster_log_matching_storage {voters : List Id} {c0 c : Cluster} (hsorted : voters.Pairwise (· < ·))
    (h0 : 0 ∉ voters) (hne : voters ≠ []) (hc : InitCluster voters c0) (h : CReachable c0 c)
    {a b : Nat} {ra rb : RawNode} (ha : c.nodes a = some ra) (hb : c.nodes b = some rb)
    {i : Nat} (hi : 1 ≤ i) {e e' : Entry} (he : ra.raft.log.storage.abs.ents[i - 1]? = some e)
    (he' : rb.raft.log.storage.abs.ents[i - 1]? = some e') (ht : e.term = e'.term)
    {j : Nat} (hj : 1 ≤ j) (hji : j ≤ i) :
    ∃ x y, ra.raft.log.storage.abs.ents[j - 1]? = some x ∧ rb.raft.log.storage.abs.ents[j - 1]? = some y ∧
      x.term = y.term ∧ x.typ = y.typ ∧ x.data = y.data ∧ x.index = j ∧ y.index = j :=
  log_matching_views ⟨hsorted, h0, hne, hc, h⟩ ha hb true true hi he he' ht hj hji

/-! ## C06 commit within log -/

/-- **C06** the commit index of a live node is within its log, and the log's last index is the number of entries -/
theorem cluster_commit_within_log {voters : List Id} {c0 c : Cluster} (hsorted : voters.Pairwise (· < ·))
    (h0 : 0 ∉ voters) (hne : voters ≠ []) (hc : InitCluster voters c0) (h : CReachable c0 c)
    {a : Nat} {ra : RawNode} (ha : c.nodes a = some ra) :
    ra.raft.log.committed ≤ ra.raft.log.lastIndex ∧ ra.raft.log.lastIndex = ra.raft.log.abs.ents.length := by
  have S : Setting voters c0 c := ⟨hsorted, h0, hne, hc, h⟩
  obtain ⟨s, _, hR⟩ := S.related (fun _ _ => 0)
  have := commit_within_views S ha false
  rw [(lastIndex_eq hR ha).1]
  exact ⟨this, rfl⟩

/-- **C06, durable version** the stored commit index is within the stored log -/
theorem cluster_stored_commit_within_storage {voters : List Id} {c0 c : Cluster} (hsorted : voters.Pairwise (· < ·))
    (h0 : 0 ∉ voters) (hne : voters ≠ []) (hc : InitCluster voters c0) (h : CReachable c0 c)
    {a : Nat} {ra : RawNode} (ha : c.nodes a = some ra) :
    (ra.raft.log.storage.hardState.getD {}).commit ≤ ra.raft.log.storage.lastIndex ∧
      ra.raft.log.storage.lastIndex = ra.raft.log.storage.abs.ents.length := by
  have S : Setting voters c0 c := ⟨hsorted, h0, hne, hc, h⟩
  obtain ⟨s, _, hR⟩ := S.related (fun _ _ => 0)
  have := commit_within_views S ha true
  rw [(lastIndex_eq hR ha).2]
  exact ⟨this, rfl⟩

/-! ## C02 one leader per term -/

/-- **C02** two live leaders with the same term are the same node -/
theorem cluster_one_leader_per_term {voters : List Id} {c0 c : Cluster} (hsorted : voters.Pairwise (· < ·))
    (h0 : 0 ∉ voters) (hne : voters ≠ []) (hc : InitCluster voters c0) (h : CReachable c0 c)
    {a b : Nat} {ra rb : RawNode} (ha : c.nodes a = some ra) (hb : c.nodes b = some rb)
    (hla : ra.raft.state = .leader) (hlb : rb.raft.state = .leader) (ht : ra.raft.term = rb.raft.term) : a = b :=
  cluster_election_safety hsorted h0 hne hc h ha hb hla hlb ht

/-! ## C04 leader completeness -/

/-- **C04 leader completeness**: the log of a live leader `l` holds every entry that any live node `b` whose term
does not exceed the leader's has at or below its commit index — with the same term, type, data and index.  (For a
node `b` of a larger term `l` is a deposed leader, and nothing can be said.)  This covers entries committed in
earlier terms (the Spec's `LeaderCompleteness`) *and* entries committed in the leader's own term while the leader's
own commit index is still behind. -/
theorem cluster_leader_completeness {voters : List Id} {c0 c : Cluster} (hsorted : voters.Pairwise (· < ·))
    (h0 : 0 ∉ voters) (hne : voters ≠ []) (hc : InitCluster voters c0) (h : CReachable c0 c)
    {l b : Nat} {rl rb : RawNode} (hl : c.nodes l = some rl) (hb : c.nodes b = some rb)
    (hlead : rl.raft.state = .leader) (hterm : rb.raft.term ≤ rl.raft.term)
    {i : Nat} (hi : 1 ≤ i) (hic : i ≤ rb.raft.log.committed) :
    ∃ x y, rl.raft.log.abs.ents[i - 1]? = some x ∧ rb.raft.log.abs.ents[i - 1]? = some y ∧
      x.term = y.term ∧ x.typ = y.typ ∧ x.data = y.data ∧ x.index = i ∧ y.index = i :=
  leader_complete_views ⟨hsorted, h0, hne, hc, h⟩ hl hb false hlead hterm hi hic

/-- **C04 leader completeness, durable version**: the same for the *stored* commit index, term and entries of `b` —
what `b` would resume from after a crash -/
theorem cluster_leader_completeness_stored {voters : List Id} {c0 c : Cluster} (hsorted : voters.Pairwise (· < ·))
    (h0 : 0 ∉ voters) (hne : voters ≠ []) (hc : InitCluster voters c0) (h : CReachable c0 c)
    {l b : Nat} {rl rb : RawNode} (hl : c.nodes l = some rl) (hb : c.nodes b = some rb)
    (hlead : rl.raft.state = .leader) (hterm : (rb.raft.log.storage.hardState.getD {}).term ≤ rl.raft.term)
    {i : Nat} (hi : 1 ≤ i) (hic : i ≤ (rb.raft.log.storage.hardState.getD {}).commit) :
    ∃ x y, rl.raft.log.abs.ents[i - 1]? = some x ∧ rb.raft.log.storage.abs.ents[i - 1]? = some y ∧
      x.term = y.term ∧ x.typ = y.typ ∧ x.data = y.data ∧ x.index = i ∧ y.index = i :=
  leader_complete_views ⟨hsorted, h0, hne, hc, h⟩ hl hb true hlead hterm hi hic

/-! ## C05 promises are durable -/

/-- **C05 (votes)**: a granting `MsgVoteResp` anywhere on the network is covered by the *stored* hard state of its
sender `m.from` (whether the sender crashed and restarted in between or not): the stored term is larger, or it is
the term of the message and the stored vote is the addressee -/
theorem cluster_vote_durable {voters : List Id} {c0 c : Cluster} (hsorted : voters.Pairwise (· < ·))
    (h0 : 0 ∉ voters) (hne : voters ≠ []) (hc : InitCluster voters c0) (h : CReachable c0 c)
    {m : Message} (hm : m ∈ c.net) (hty : m.typ = .voteResp) (hrej : m.reject = false)
    {rn : RawNode} (hv : c.nodes m.from = some rn) :
    (rn.raft.log.storage.hardState.getD {}).term > m.term ∨
      ((rn.raft.log.storage.hardState.getD {}).term = m.term ∧
        (rn.raft.log.storage.hardState.getD {}).vote = m.to) :=
  vote_durable_net ⟨hsorted, h0, hne, hc, h⟩ hm hty hrej hv

/-- **C05 (acks)**: an accepting `MsgAppResp` with index `≥ 1` anywhere on the network: the stored term of its sender
is at least the term of the message, and while it is equal the sender's storage reaches the acknowledged index -/
theorem cluster_ack_durable {voters : List Id} {c0 c : Cluster} (hsorted : voters.Pairwise (· < ·))
    (h0 : 0 ∉ voters) (hne : voters ≠ []) (hc : InitCluster voters c0) (h : CReachable c0 c)
    {m : Message} (hm : m ∈ c.net) (hty : m.typ = .appResp) (hrej : m.reject = false) (hi : 1 ≤ m.index)
    {rn : RawNode} (hv : c.nodes m.from = some rn) :
    m.term ≤ (rn.raft.log.storage.hardState.getD {}).term ∧
      ((rn.raft.log.storage.hardState.getD {}).term = m.term → m.index ≤ rn.raft.log.storage.lastIndex) := by
  have S : Setting voters c0 c := ⟨hsorted, h0, hne, hc, h⟩
  obtain ⟨s, _, hR⟩ := S.related (fun _ _ => 0)
  rw [(lastIndex_eq hR hv).2]
  exact ack_durable_net S hm hty hrej hi hv

/-- **C05 (acks), what the leader may rely on**: an accepting `MsgAppResp` of term `T` on the network, a live leader
`l` of term `T`, and the sender's stored term still `T`: the sender's *storage* agrees with the leader's log on
`1..m.index` (term, type, data, index) -/
theorem cluster_ack_matches_leader {voters : List Id} {c0 c : Cluster} (hsorted : voters.Pairwise (· < ·))
    (h0 : 0 ∉ voters) (hne : voters ≠ []) (hc : InitCluster voters c0) (h : CReachable c0 c)
    {m : Message} (hm : m ∈ c.net) (hty : m.typ = .appResp) (hrej : m.reject = false)
    {rn : RawNode} (hv : c.nodes m.from = some rn) (hst : (rn.raft.log.storage.hardState.getD {}).term = m.term)
    {l : Nat} {rl : RawNode} (hl : c.nodes l = some rl) (hlead : rl.raft.state = .leader)
    (hlt : rl.raft.term = m.term) {j : Nat} (hj : 1 ≤ j) (hjm : j ≤ m.index) :
    ∃ x y, rl.raft.log.abs.ents[j - 1]? = some x ∧ rn.raft.log.storage.abs.ents[j - 1]? = some y ∧
      x.term = y.term ∧ x.typ = y.typ ∧ x.data = y.data ∧ x.index = j ∧ y.index = j :=
  ack_matches_leader ⟨hsorted, h0, hne, hc, h⟩ hm hty hrej hv hst hl hlead hlt hj hjm

/-! ## C07 the hard state along environment steps -/

/-- **C07** along any environment step from a reachable cluster, for every node live before and after: either its
hard state advances legally — the term does not decrease, within an unchanged term the vote stays or changes from
none to some id, the commit index does not decrease — or (the step is a crash of that node) it resumes exactly from
its stored hard state, which is never ahead of the lost one (`cluster_stored_behind_volatile`) -/
theorem cluster_hardstate_monotone {voters : List Id} {c0 c c' : Cluster} (hsorted : voters.Pairwise (· < ·))
    (h0 : 0 ∉ voters) (hne : voters ≠ []) (hc : InitCluster voters c0) (h : CReachable c0 c) (hstep : EnvStep c c')
    {n : Nat} {rn rn' : RawNode} (hn : c.nodes n = some rn) (hn' : c'.nodes n = some rn') :
    (rn.raft.term ≤ rn'.raft.term ∧
      (rn'.raft.term = rn.raft.term → rn'.raft.vote = rn.raft.vote ∨ rn.raft.vote = 0) ∧
      rn.raft.log.committed ≤ rn'.raft.log.committed) ∨
    RawNode.hardState rn'.raft = rn.raft.log.storage.hardState.getD {} := by
  have S : Setting voters c0 c := ⟨hsorted, h0, hne, hc, h⟩
  obtain ⟨s, _, hR⟩ := S.related (fun _ _ => 0)
  obtain ⟨k, rk, rk', hk, hk', hoth, hns⟩ := envstep_node hsorted h0 hne hR hstep
  by_cases hnk : n = k
  · subst hnk
    have e1 : rk = rn := by rw [hk] at hn; exact Option.some.inj hn
    have e2 : rk' = rn' := by rw [hk'] at hn'; exact Option.some.inj hn'
    subst e1 e2
    cases hns with
    | loc hm _ => exact Or.inl ⟨hm.term, hm.vote, hm.commit⟩
    | sync hm _ => exact Or.inl ⟨hm.term, hm.vote, hm.commit⟩
    | crash h1 _ => exact Or.inr h1
  · rw [hoth n hnk, hn] at hn'
    have : rn = rn' := Option.some.inj hn'
    subst this
    exact Or.inl ⟨Nat.le_refl _, fun _ => Or.inl rfl, Nat.le_refl _⟩

/-- **C07** the stored hard state of a live node is never ahead of its current one: stored term `≤` term, stored
commit `≤` commit, and if the terms are equal the stored vote is the current vote or none -/
theorem cluster_stored_behind_volatile {voters : List Id} {c0 c : Cluster} (hsorted : voters.Pairwise (· < ·))
    (h0 : 0 ∉ voters) (hne : voters ≠ []) (hc : InitCluster voters c0) (h : CReachable c0 c)
    {n : Nat} {rn : RawNode} (hn : c.nodes n = some rn) :
    (rn.raft.log.storage.hardState.getD {}).term ≤ rn.raft.term ∧
    (rn.raft.log.storage.hardState.getD {}).commit ≤ rn.raft.log.committed ∧
    (rn.raft.term = (rn.raft.log.storage.hardState.getD {}).term →
      rn.raft.vote = (rn.raft.log.storage.hardState.getD {}).vote ∨
      (rn.raft.log.storage.hardState.getD {}).vote = 0) := by
  have := storedBehind_reachable ⟨hsorted, h0, hne, hc, h⟩ hn
  exact ⟨this.term, this.commit, this.vote⟩

/-- **C07 restart**: a node of a reachable cluster that crashes and is rebuilt by `RawNode.new` from its own storage
(the hypotheses are those of `EnvStep.crash`) resumes with `(term, vote, commit)` = the stored hard state, and the
stored hard state is unchanged -/
theorem restart_resumes_from_storage {voters : List Id} {c0 c : Cluster} (hsorted : voters.Pairwise (· < ·))
    (h0 : 0 ∉ voters) (hne : voters ≠ []) (hc : InitCluster voters c0) (h : CReachable c0 c)
    {n : Nat} {rn rn' : RawNode} {cfg : Config} {draws : List Nat}
    (hn : c.nodes n = some rn) (hnv : ∀ m ∈ rn.raft.msgs, m.typ ≠ .vote)
    (hid : cfg.id = n) (hpv : cfg.preVote = false)
    (has : cfg.asyncStorageWrites = false) (happ : cfg.applied = 0)
    (hnew : RawNode.new cfg rn.raft.log.storage draws = .ok rn') :
    rn'.raft.term = (rn.raft.log.storage.hardState.getD {}).term ∧
    rn'.raft.vote = (rn.raft.log.storage.hardState.getD {}).vote ∧
    rn'.raft.log.committed = (rn.raft.log.storage.hardState.getD {}).commit ∧
    rn'.raft.log.storage.hardState.getD {} = rn.raft.log.storage.hardState.getD {} := by
  have S : Setting voters c0 c := ⟨hsorted, h0, hne, hc, h⟩
  obtain ⟨s, _, hR⟩ := S.related (fun _ _ => 0)
  obtain ⟨h1, h2⟩ := restart_hardState hsorted h0 hne hR hn hnv hid hpv has happ hnew
  exact ⟨congrArg HardState.term h1, congrArg HardState.vote h1, congrArg HardState.commit h1, h2⟩

/-! ## further transfers -/

/-- **C02 votes are unique**: two granting `MsgVoteResp` on the network of the same sender and term name the same
candidate (also across crashes of the sender) -/
theorem cluster_vote_unique {voters : List Id} {c0 c : Cluster} (hsorted : voters.Pairwise (· < ·))
    (h0 : 0 ∉ voters) (hne : voters ≠ []) (hc : InitCluster voters c0) (h : CReachable c0 c)
    {m m' : Message} (hm : m ∈ c.net) (hm' : m' ∈ c.net) (hty : m.typ = .voteResp) (hty' : m'.typ = .voteResp)
    (hrej : m.reject = false) (hrej' : m'.reject = false) (hf : m.from = m'.from) (ht : m.term = m'.term) :
    m.to = m'.to :=
  vote_unique_net ⟨hsorted, h0, hne, hc, h⟩ hm hm' hty hty' hrej hrej' hf ht

/-- **C03 terms are monotone**: along the log of a live node the terms never decrease, are at least 1 and at most the
node's term; the same for its storage and its stored term -/
theorem cluster_terms_monotone {voters : List Id} {c0 c : Cluster} (hsorted : voters.Pairwise (· < ·))
    (h0 : 0 ∉ voters) (hne : voters ≠ []) (hc : InitCluster voters c0) (h : CReachable c0 c)
    {a : Nat} {ra : RawNode} (ha : c.nodes a = some ra) :
    ((ra.raft.log.abs.ents.map (·.term)).Pairwise (· ≤ ·) ∧
      ∀ e ∈ ra.raft.log.abs.ents, 1 ≤ e.term ∧ e.term ≤ ra.raft.term) ∧
    ((ra.raft.log.storage.abs.ents.map (·.term)).Pairwise (· ≤ ·) ∧
      ∀ e ∈ ra.raft.log.storage.abs.ents, 1 ≤ e.term ∧ e.term ≤ (ra.raft.log.storage.hardState.getD {}).term) :=
  ⟨terms_monotone_views ⟨hsorted, h0, hne, hc, h⟩ ha false, terms_monotone_views ⟨hsorted, h0, hne, hc, h⟩ ha true⟩

/-- **C01 state-machine safety, durable version**: what node `a` would re-apply after a crash — the entries of its
*storage* up to its *stored* commit index — agrees (term, type, data, index) with what any node `b` has committed
(`Simulation.cluster_state_machine_safety` is the version for the logs of two live nodes) -/
theorem cluster_state_machine_safety_durable {voters : List Id} {c0 c : Cluster} (hsorted : voters.Pairwise (· < ·))
    (h0 : 0 ∉ voters) (hne : voters ≠ []) (hc : InitCluster voters c0) (h : CReachable c0 c)
    {a b : Nat} {ra rb : RawNode} (ha : c.nodes a = some ra) (hb : c.nodes b = some rb) {i : Nat} (hi : 1 ≤ i)
    (h1 : i ≤ (ra.raft.log.storage.hardState.getD {}).commit) (h2 : i ≤ rb.raft.log.committed) :
    ∃ x y, ra.raft.log.storage.abs.ents[i - 1]? = some x ∧ rb.raft.log.abs.ents[i - 1]? = some y ∧
      x.term = y.term ∧ x.typ = y.typ ∧ x.data = y.data ∧ x.index = i ∧ y.index = i :=
  commit_agree_views ⟨hsorted, h0, hne, hc, h⟩ ha hb true false hi h1 h2

/-- **C01 state-machine safety, storage against storage** -/
theorem cluster_state_machine_safety_storage {voters : List Id} {c0 c : Cluster} (hsorted : voters.Pairwise (· < ·))
    (h0 : 0 ∉ voters) (hne : voters ≠ []) (hc : InitCluster voters c0) (h : CReachable c0 c)
    {a b : Nat} {ra rb : RawNode} (ha : c.nodes a = some ra) (hb : c.nodes b = some rb) {i : Nat} (hi : 1 ≤ i)
    (h1 : i ≤ (ra.raft.log.storage.hardState.getD {}).commit)
    (h2 : i ≤ (rb.raft.log.storage.hardState.getD {}).commit) :
    ∃ x y, ra.raft.log.storage.abs.ents[i - 1]? = some x ∧ rb.raft.log.storage.abs.ents[i - 1]? = some y ∧
      x.term = y.term ∧ x.typ = y.typ ∧ x.data = y.data ∧ x.index = i ∧ y.index = i :=
  commit_agree_views ⟨hsorted, h0, hne, hc, h⟩ ha hb true true hi h1 h2

/-- **C07 a leader's term is durable**: the stored term of a live leader is its term -/
theorem cluster_leader_term_durable {voters : List Id} {c0 c : Cluster} (hsorted : voters.Pairwise (· < ·))
    (h0 : 0 ∉ voters) (hne : voters ≠ []) (hc : InitCluster voters c0) (h : CReachable c0 c)
    {l : Nat} {rl : RawNode} (hl : c.nodes l = some rl) (hlead : rl.raft.state = .leader) :
    (rl.raft.log.storage.hardState.getD {}).term = rl.raft.term :=
  leader_term_stored ⟨hsorted, h0, hne, hc, h⟩ hl hlead

end RaftVerif.SimCor
