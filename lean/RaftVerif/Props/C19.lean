import RaftVerif.Props.C12
import RaftVerif.Model.ConfChange
/-!
# C19  Determinism: independence of map iteration order

The node model is a Lean *function* of (state, operation, election-timeout draws): given equal
arguments it returns equal results — there is no hidden state, clock or randomness to depend on.
What remains to be shown for the Go code is that the places where it iterates a Go map in raw
(randomised) order compute something that does not depend on that order. The list of such places
is extracted from the source on every run (`harness/cmd/facts`, `harness/facts_expected.json` with an
audit note per site); the theorems below are the permutation-invariance facts behind the sites that
compute a value from the iteration (the others copy a set, or sort before use).
-/
namespace RaftVerif.Quorum

/-- `JointConfig.CommittedIndex` does not depend on the order in which either voter map is iterated -/
theorem jointCommitted_perm (c0 c0' c1 c1' : List Id) (ack : Id → Option Nat)
    (h0 : c0.Perm c0') (h1 : c1.Perm c1') :
    jointCommitted c0 c1 ack = jointCommitted c0' c1' ack := by
  unfold jointCommitted
  rw [majorityCommitted_perm c0 c0' ack h0, majorityCommitted_perm c1 c1' ack h1]

/-- `JointConfig.VoteResult` does not depend on the iteration order -/
theorem jointVote_perm (c0 c0' c1 c1' : List Id) (votes : Id → Option Bool)
    (h0 : c0.Perm c0') (h1 : c1.Perm c1') :
    jointVote c0 c1 votes = jointVote c0' c1' votes := by
  unfold jointVote
  rw [majorityVote_perm c0 c0' votes h0, majorityVote_perm c1 c1' votes h1]

/-- `JointConfig.IDs`: the *set* of ids is order independent -/
theorem jointIDs_mem (c0 c1 : List Id) (id : Id) : id ∈ jointIDs c0 c1 ↔ id ∈ c0 ∨ id ∈ c1 := by
  unfold jointIDs
  by_cases hc : id ∈ c0
  · simp [hc]
  · simp [hc]

end RaftVerif.Quorum

namespace RaftVerif

/-- confchange `symdiff` (counting) does not depend on the iteration order of either map -/
theorem symdiff_perm (l l' r r' : List Id) (hl : l.Perm l') (hr : r.Perm r') :
    symdiff l r = symdiff l' r' := by
  unfold symdiff
  have e1 : (fun id => !r.contains id) = (fun id => !r'.contains id) := by
    funext id
    simp only [List.contains_eq_mem, hr.mem_iff]
  have e2 : (fun id => !l.contains id) = (fun id => !l'.contains id) := by
    funext id
    simp only [List.contains_eq_mem, hl.mem_iff]
  rw [e1, e2, hl.countP_eq, hr.countP_eq]

/-- `ProgressTracker.TallyVotes`: the granted / rejected counts do not depend on the order in which
the progress map is iterated -/
theorem tallyVotes_counts_perm (t : Tracker) (prs' : ProgressMap) (h : t.progress.Perm prs') :
    (t.tallyVotes).1 = ({ t with progress := prs' } : Tracker).tallyVotes.1 ∧
    (t.tallyVotes).2.1 = ({ t with progress := prs' } : Tracker).tallyVotes.2.1 := by
  unfold Tracker.tallyVotes
  have hp := List.Perm.filterMap (fun (x : Id × Progress) => if x.2.isLearner then none else mapGet t.votes x.1) h
  exact ⟨hp.countP_eq _, hp.countP_eq _⟩

/-! non-vacuity -/
example : Quorum.jointCommitted [1, 2, 3] [4, 5] (Quorum.lookup [(1, 5), (2, 3), (3, 9), (4, 2), (5, 7)]) =
          Quorum.jointCommitted [3, 1, 2] [5, 4] (Quorum.lookup [(1, 5), (2, 3), (3, 9), (4, 2), (5, 7)]) := by decide
example : symdiff [1, 2, 3] [2, 4] = symdiff [3, 2, 1] [4, 2] := by decide

end RaftVerif
