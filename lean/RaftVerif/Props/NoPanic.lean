import RaftVerif.Proofs.NoPanicHup
import RaftVerif.Proofs.NoPanicDeliver
import RaftVerif.Proofs.NoPanicRestart
import RaftVerif.Proofs.NoPanicCond
import RaftVerif.Proofs.NoPanicStep
import RaftVerif.Proofs.NoPanicSelf
/-!
# Props/NoPanic — no model call throws in any reachable state of the simulated cluster (C14, end to end)

Setting: `Props/Simulation.lean` (cluster of model `RawNode`s, environment steps `EnvStep`, `CReachable`,
`InitCluster`).  `NoPanicP.Done x`: the call `x` completed without a `throw` of the model proper — it returned `.ok`,
or only the test harness complained that election-timeout draws were left over (`RawNode.runM`; that complaint is
raised only *after* the model action has run to completion).  A non-empty `draws` list is always enough.

Results:
* `cluster_no_panic` (unconditional, every reachable cluster): `tick`, `campaign`, delivery of MsgVote / MsgVoteResp /
  MsgApp / MsgHeartbeat, `RawNode.new` at restart.
* `node_no_panic_np` (cluster related to a Spec state AND satisfying the additional invariant `NPC`): `propose`,
  delivery of MsgAppResp / MsgHeartbeatResp / forwarded MsgProp, the sync round `syncRound`.
* `cluster_no_panic_all`: all of them in every reachable cluster, GIVEN `NPKeeps` (the five preservation statements
  for `NPInv`).  Four of the five are proved (`Proofs/NoPanicKeeps.lean`: `npinv_deliver`, `npinv_hup`, `npinv_tick`,
  `npinv_propose`); the preservation of `NPInv` by the sync round is NOT proved (ingredients: `syncRound_keepsProg`
  — which needs `draws ≠ []` —, `advance_lp`, `afterPersist_facts`), so `NPKeeps` is not instantiated.
-/
namespace RaftVerif.NoPanic
open Sim Refine Simulation NoPanicP

/-- the message kinds covered by `cluster_no_panic` -/
def CoveredNP (t : MsgType) : Prop := t = .vote ∨ t = .voteResp ∨ t = .app ∨ t = .heartbeat

/-- every reachable cluster is related to a reachable Spec state (any payload encoding) -/
theorem reachable_rsd (val : Val) {voters : List Id} {c0 c : Cluster} (hsorted : voters.Pairwise (· < ·))
    (hv0 : 0 ∉ voters) (hc : InitCluster voters c0) (h : CReachable c0 c) :
    ∃ s, Spec.Reachable (cfgOf voters) s ∧ RSD val voters c s :=
  reachable_related hsorted hv0 (init_related (val := val) hsorted hv0 hc) h

/-- what holds for every live node of a cluster related to a Spec state -/
theorem node_no_panic {val : Val} {voters : List Id} {c : Cluster} {s : Spec.State}
    (hsorted : voters.Pairwise (· < ·)) (hv0 : 0 ∉ voters) (hR : RSD val voters c s)
    {n : Nat} {rn : RawNode} (hn : c.nodes n = some rn) (draws : List Nat) (hd : draws ≠ []) :
    Done (rn.tick draws) ∧ Done (rn.campaign draws) ∧
    (∀ m ∈ c.net, m.to = n → CoveredNP m.typ → Done (rn.step draws m)) ∧
    (∀ cfg : Config, cfg.id = n → cfg.applied = 0 → (∃ c', cfg.validate = .ok c') →
      ∃ rn', RawNode.new cfg rn.raft.log.storage draws = .ok rn') := by
  have hnode := hR.rs.ra.base.nodes n rn hn
  have reach := hR.rs.ra.base.reach
  have hnd : voters.Nodup := hsorted.imp (fun h => Nat.ne_of_lt h)
  have hne : voters ≠ [] := List.ne_nil_of_mem hnode.inv.st.self
  have hcfg : (cfgOf voters).OK := Spec.jointCfg_ok voters [] hne hnd (by simp)
  have hi := hnode.inv.withDraws draws
  refine ⟨tick_done_inv hnode draws hd, campaign_done hnode draws hd, ?_, ?_⟩
  · intro m hm hto hk
    have hnet := hR.rs.ra.base.net m hm
    have hnf := hR.rs.ra.netFrom m hm
    refine step_done rn draws m ?_
    rcases hk with hk | hk | hk | hk
    · exact noErr_deliver_vote hi reach hk hnet hd
    · exact noErr_deliver_voteResp hi reach hk (netOK_term_ne (Or.inr (Or.inl hk)) hnet) hd
    · exact noErr_deliver_app hi reach hcfg hk hnet (covered_from_ne hto hnet hnf (Or.inr (Or.inl hk))) hd
    · exact noErr_deliver_hb hi reach hcfg hk hnet hto
        (covered_from_ne hto hnet hnf (Or.inr (Or.inr (Or.inr (Or.inl hk))))) hd
  · intro cfg hid happ hval
    refine restart_ok hnode (hR.rs.settled n rn hn) (hR.dur n rn hn) hsorted hv0 ?_ cfg hid happ hval draws hd
    exact Spec.commit_within_log _ hcfg s reach n _ (by simp [Spec.versions])

/-- the message kinds that are covered under the additional invariant `NPC` -/
def CoveredNP2 (t : MsgType) : Prop := t = .appResp ∨ t = .heartbeatResp ∨ t = .prop

/-- **the leader-side operations** of a live node of a cluster that is related to a Spec state AND satisfies the
additional invariant `NPC` (`Proofs/NoPanicInv.lean`): `propose` and the delivery of MsgAppResp, MsgHeartbeatResp
and forwarded MsgProp do not throw -/
theorem node_no_panic_np {val : Val} {voters : List Id} {c : Cluster} {s : Spec.State}
    (hsorted : voters.Pairwise (· < ·)) (hR : RSD val voters c s) (hN : NPC c)
    {n : Nat} {rn : RawNode} (hn : c.nodes n = some rn) (draws : List Nat) (hd : draws ≠ []) :
    (∀ data, Done (rn.propose draws data)) ∧
    (∀ m ∈ c.net, m.to = n → CoveredNP2 m.typ → Done (rn.step draws m)) ∧
    Done (syncRound rn draws) := by
  have hnode := hR.rs.ra.base.nodes n rn hn
  have reach := hR.rs.ra.base.reach
  have hnd : voters.Nodup := hsorted.imp (fun h => Nat.ne_of_lt h)
  have hne : voters ≠ [] := List.ne_nil_of_mem hnode.inv.st.self
  have hcfg : (cfgOf voters).OK := Spec.jointCfg_ok voters [] hne hnd (by simp)
  have hi := hnode.inv.withDraws draws
  have hnp := (hN.1 n rn hn).withDraws draws
  refine ⟨fun data => propose_done_np hnode (hN.1 n rn hn) draws data, ?_,
    syncRound_done_np hcfg hnode (hR.rs.ra.aux n rn hn) (hR.rs.settled n rn hn) (hR.rs.prom n rn hn) reach
      (hN.1 n rn hn) draws hd⟩
  intro m hm hto hk
  have hnet := hR.rs.ra.base.net m hm
  have hnf := hR.rs.ra.netFrom m hm
  refine step_done rn draws m ?_
  rcases hk with hk | hk | hk
  · exact noErr_deliver_appResp hi reach hcfg hk hnet hto
      (covered_from_ne hto hnet hnf (Or.inr (Or.inr (Or.inl hk)))) hnp.prog hd
  · have hfrom : m.from ≠ n := by rw [← hto]; exact (hN.2 m hm).2 hk
    exact noErr_deliver_hbResp hi reach hk hnet hfrom hnp.prog hd
  · exact noErr_deliver_prop hi hk hnet (hN.2 m hm).1 hnp

/-- **Main theorem (operations covered so far).**  In every cluster reachable from an initial cluster — by deliveries
in any order and multiplicity, ticks, proposals, campaigns, `Ready`/persist/`Advance` rounds and crashes with
restart — no covered model call on a live node throws: `tick`, `campaign`, `step` of a covered message of the network
addressed to the node, and `RawNode.new` on the node's own storage with any valid configuration. -/
theorem cluster_no_panic {voters : List Id} {c0 c : Cluster} (hsorted : voters.Pairwise (· < ·))
    (hv0 : 0 ∉ voters) (hc : InitCluster voters c0) (h : CReachable c0 c)
    {n : Nat} {rn : RawNode} (hn : c.nodes n = some rn) (draws : List Nat) (hd : draws ≠ []) :
    Done (rn.tick draws) ∧ Done (rn.campaign draws) ∧
    (∀ m ∈ c.net, m.to = n → CoveredNP m.typ → Done (rn.step draws m)) ∧
    (∀ cfg : Config, cfg.id = n → cfg.applied = 0 → (∃ c', cfg.validate = .ok c') →
      ∃ rn', RawNode.new cfg rn.raft.log.storage draws = .ok rn') := by
  obtain ⟨s, _, hR⟩ := reachable_rsd (fun _ _ => 0) hsorted hv0 hc h
  exact node_no_panic hsorted hv0 hR hn draws hd

/-- **All operations, given the preservation lemmas `NPKeeps` for the additional invariant.**  `NPKeeps`
(`Proofs/NoPanicStep.lean`) states that the five kinds of model calls preserve `NPInv`; with it, `NPC` holds in every
reachable cluster (`reachable_rsd_npc`) and every environment operation is total. -/
theorem cluster_no_panic_all {voters : List Id} {c0 c : Cluster} (K : NPKeeps (fun _ _ => 0) voters)
    (hsorted : voters.Pairwise (· < ·)) (hv0 : 0 ∉ voters) (hc : InitCluster voters c0) (h : CReachable c0 c)
    {n : Nat} {rn : RawNode} (hn : c.nodes n = some rn) (draws : List Nat) (hd : draws ≠ []) :
    Done (rn.tick draws) ∧ Done (rn.campaign draws) ∧ (∀ data, Done (rn.propose draws data)) ∧
    (∀ m ∈ c.net, m.to = n → CoveredNP m.typ ∨ CoveredNP2 m.typ → Done (rn.step draws m)) ∧
    Done (syncRound rn draws) ∧
    (∀ cfg : Config, cfg.id = n → cfg.applied = 0 → (∃ c', cfg.validate = .ok c') →
      ∃ rn', RawNode.new cfg rn.raft.log.storage draws = .ok rn') := by
  obtain ⟨s, hR, hN⟩ := reachable_rsd_npc K hsorted hv0 hc h
  obtain ⟨a1, a2, a3, a4⟩ := node_no_panic hsorted hv0 hR hn draws hd
  obtain ⟨b1, b2, b3⟩ := node_no_panic_np hsorted hR hN hn draws hd
  exact ⟨a1, a2, b1, fun m hm hto hk => hk.elim (a3 m hm hto) (b2 m hm hto), b3, a4⟩

end RaftVerif.NoPanic
