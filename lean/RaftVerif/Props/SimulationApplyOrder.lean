import RaftVerif.Proofs.SimCorOrderInv
import RaftVerif.Props.SimulationApply
/-!
# Props/SimulationApplyOrder — C08 at the cluster level: in-order, gap-free, exactly-once hand-out across rounds

Property theorems only (machinery: `Proofs/SimCorOrder*.lean`).  Setting and restrictions: those of
`Props/SimulationApply.lean` (clusters of unchanged model `RawNode`s reachable from an initial cluster by
`Simulation.EnvStep`; sync storage writes, no snapshots, …).

In sync mode the apply cursors `log.applying` / `log.applied` of a node move only inside a round
(`Sim.syncRound` = `Ready`; persist; `Advance`): `acceptReady` sets `applying` to the index of the last handed-out
entry and queues a MsgStorageApplyResp in `stepsOnAdvance`; `Advance` steps it, `appliedTo` sets `applied` to the
same index.  `Raft.step` of every other message kind and `Raft.tick` keep both cursors
(`Sim.step_cursors`, `Sim.tick_cursors`: all message kinds except the two storage acknowledgements, all fuels).

`SimCorP.OtherStep n c c'`: an environment step that is neither a round of `n` nor a crash of `n` (every `deliver`,
`tick`, `propose`, `campaign` — of `n` too — and the rounds and crashes of the other nodes); `QuietOf n` is
its reflexive-transitive closure.
-/
namespace RaftVerif.SimCor
open Sim Refine Simulation SimCorP

/-- **what a round does to the apply cursors**: before and after a round of a live node of a reachable cluster
`applied = applying`; a round without hand-out leaves both where they were, a round with a hand-out ending in `last`
moves both to `last.index` -/
theorem sync_round_moves_cursor {voters : List Id} {c0 c : Cluster} (hsorted : voters.Pairwise (· < ·))
    (h0 : 0 ∉ voters) (hne : voters ≠ []) (hc : InitCluster voters c0) (h : CReachable c0 c)
    {n : Nat} {rn rn' : RawNode} (hn : c.nodes n = some rn) {rd : Ready} {draws : List Nat}
    (hr : syncRound rn draws = .ok (rd, rn')) :
    rn.raft.log.applied = rn.raft.log.applying ∧ rn'.raft.log.applied = rn'.raft.log.applying ∧
    (rd.committedEntries = [] → rn'.raft.log.applying = rn.raft.log.applying) ∧
    (∀ last, rd.committedEntries.getLast? = some last → rn'.raft.log.applying = last.index) := by
  have S : Setting voters c0 c := ⟨hsorted, h0, hne, hc, h⟩
  obtain ⟨r1, r2⟩ := round_cursors_views S hn hr
  have e0 := cursors_eq S hn
  have S1 : Setting voters c0 _ := ⟨hsorted, h0, hne, hc, h.step (.sync n rn rn' draws rd hn hr)⟩
  have e1 : rn'.raft.log.applied = rn'.raft.log.applying :=
    cursors_eq S1 (n := n) (rn := rn') (by simp [Cluster.setNode])
  exact ⟨e0, e1, fun hnil => congrArg Prod.fst (r1 hnil), fun last hl => congrArg Prod.fst (r2 last hl)⟩

/-- **the model operations outside a round keep the apply cursors** (any `RawNode`, no invariant needed):
`RawNode.step` of any message that is no storage acknowledgement, `tick`, `propose`, `campaign` -/
theorem rawnode_ops_keep_apply_cursor (rn rn' : RawNode) (draws : List Nat) :
    (∀ m e, m.typ ≠ .storageAppendResp → m.typ ≠ .storageApplyResp → rn.step draws m = .ok (e, rn') →
      rn'.raft.log.applying = rn.raft.log.applying ∧ rn'.raft.log.applied = rn.raft.log.applied) ∧
    (rn.tick draws = .ok rn' →
      rn'.raft.log.applying = rn.raft.log.applying ∧ rn'.raft.log.applied = rn.raft.log.applied) ∧
    (∀ data e, rn.propose draws data = .ok (e, rn') →
      rn'.raft.log.applying = rn.raft.log.applying ∧ rn'.raft.log.applied = rn.raft.log.applied) ∧
    (∀ e, rn.campaign draws = .ok (e, rn') →
      rn'.raft.log.applying = rn.raft.log.applying ∧ rn'.raft.log.applied = rn.raft.log.applied) := by
  have split : cursors rn' = cursors rn →
      rn'.raft.log.applying = rn.raft.log.applying ∧ rn'.raft.log.applied = rn.raft.log.applied :=
    fun h => ⟨congrArg Prod.fst h, congrArg Prod.snd h⟩
  exact ⟨fun m e h1 h2 h => split (rawstep_cursors h1 h2 h), fun h => split (rawtick_cursors h),
    fun data e h => split (rstep_cursors (by simp) (by simp) h),
    fun e h => split (rstep_cursors (by simp) (by simp) h)⟩

/-- **every environment step other than a round or a crash of node `n`** leaves `log.applying` and `log.applied` of
node `n` unchanged (and the node alive) -/
theorem step_keeps_apply_cursor {n : Nat} {c c' : Cluster} (hs : OtherStep n c c') {rn : RawNode}
    (hn : c.nodes n = some rn) :
    EnvStep c c' ∧ ∃ rn', c'.nodes n = some rn' ∧ rn'.raft.log.applying = rn.raft.log.applying ∧
      rn'.raft.log.applied = rn.raft.log.applied := by
  obtain ⟨rn', h1, h2⟩ := hs.cursors hn
  exact ⟨hs.envStep, rn', h1, congrArg Prod.fst h2, congrArg Prod.snd h2⟩

/-- **C08 across rounds: in order, without gap, exactly once.**  Node `n` of a reachable cluster `c` runs a round
(hand-out `rd`); then any number of environment steps happen that are neither a round nor a crash of `n`
(`QuietOf n`); then `n` runs its next round (hand-out `rd2`).  The `k`-th entry of `rd2` has index
`last.index + 1 + k`, `last` being the last entry of `rd` (in particular the first one has index `last.index + 1`);
if `rd` handed out nothing, `rd2` continues at the cursor `rn.applying + 1` the first round started from. -/
theorem cluster_apply_stream_in_order {voters : List Id} {c0 c c2 : Cluster} (hsorted : voters.Pairwise (· < ·))
    (h0 : 0 ∉ voters) (hne : voters ≠ []) (hc : InitCluster voters c0) (h : CReachable c0 c)
    {n : Nat} {rn rn' : RawNode} (hn : c.nodes n = some rn) {rd : Ready} {draws : List Nat}
    (hr : syncRound rn draws = .ok (rd, rn'))
    (hq : QuietOf n { (c.setNode n rn') with net := c.net ++ rd.messages } c2)
    {rn2 rn2' : RawNode} (hn2 : c2.nodes n = some rn2) {rd2 : Ready} {draws2 : List Nat}
    (hr2 : syncRound rn2 draws2 = .ok (rd2, rn2')) :
    (∀ last, rd.committedEntries.getLast? = some last →
      ∀ k (hk : k < rd2.committedEntries.length), rd2.committedEntries[k].index = last.index + 1 + k) ∧
    (rd.committedEntries = [] →
      ∀ k (hk : k < rd2.committedEntries.length), rd2.committedEntries[k].index = rn.raft.log.applying + 1 + k) := by
  have S : Setting voters c0 c := ⟨hsorted, h0, hne, hc, h⟩
  have h1 := h.step (.sync n rn rn' draws rd hn hr)
  have S2 : Setting voters c0 c2 := ⟨hsorted, h0, hne, hc, hq.reaches.creachable h1⟩
  obtain ⟨r1, r2⟩ := round_cursors_views S hn hr
  obtain ⟨x, hx, ex⟩ := hq.cursors (rn := rn') (by simp [Cluster.setNode])
  rw [hn2] at hx
  obtain rfl := Option.some.inj hx
  have ea : rn2.raft.log.applying = rn'.raft.log.applying := congrArg Prod.fst ex
  refine ⟨fun last hl k hk => ?_, fun hnil k hk => ?_⟩
  · rw [handed_out_contig S2 hn2 hr2 k hk, ea, show rn'.raft.log.applying = last.index from congrArg Prod.fst (r2 last hl)]
  · rw [handed_out_contig S2 hn2 hr2 k hk, ea,
      show rn'.raft.log.applying = rn.raft.log.applying from congrArg Prod.fst (r1 hnil)]

/-- **no repetition**: in the situation of `cluster_apply_stream_in_order` every index handed out by the earlier round
is below every index handed out by the later round -/
theorem cluster_apply_stream_no_repeat {voters : List Id} {c0 c c2 : Cluster} (hsorted : voters.Pairwise (· < ·))
    (h0 : 0 ∉ voters) (hne : voters ≠ []) (hc : InitCluster voters c0) (h : CReachable c0 c)
    {n : Nat} {rn rn' : RawNode} (hn : c.nodes n = some rn) {rd : Ready} {draws : List Nat}
    (hr : syncRound rn draws = .ok (rd, rn'))
    (hq : QuietOf n { (c.setNode n rn') with net := c.net ++ rd.messages } c2)
    {rn2 rn2' : RawNode} (hn2 : c2.nodes n = some rn2) {rd2 : Ready} {draws2 : List Nat}
    (hr2 : syncRound rn2 draws2 = .ok (rd2, rn2')) :
    ∀ a ∈ rd.committedEntries, ∀ b ∈ rd2.committedEntries, a.index < b.index := by
  intro a ha b hb
  have S : Setting voters c0 c := ⟨hsorted, h0, hne, hc, h⟩
  obtain ⟨i, hi, rfl⟩ := List.getElem_of_mem ha
  obtain ⟨j, hj, rfl⟩ := List.getElem_of_mem hb
  have ia := handed_out_contig S hn hr i hi
  have hne' : rd.committedEntries ≠ [] := List.ne_nil_of_mem ha
  obtain ⟨last, hl⟩ : ∃ last, rd.committedEntries.getLast? = some last := by
    cases hg : rd.committedEntries.getLast? with
    | none => exact absurd (List.getLast?_eq_none_iff.mp hg) hne'
    | some x => exact ⟨x, rfl⟩
  have jb := (cluster_apply_stream_in_order hsorted h0 hne hc h hn hr hq hn2 hr2).1 last hl j hj
  have hlast : last.index = rn.raft.log.applying + 1 + (rd.committedEntries.length - 1) := by
    have hpos : rd.committedEntries.length - 1 < rd.committedEntries.length :=
      Nat.sub_lt (List.length_pos_of_mem ha) (by decide)
    have := handed_out_contig S hn hr _ hpos
    rw [← this]
    rw [List.getLast?_eq_getElem?, List.getElem?_eq_getElem hpos] at hl
    exact congrArg Entry.index (Option.some.inj hl).symm
  omega

/-- **across a crash** (`EnvStep.crash`: restart from the node's own storage with `cfg.applied = 0`): both cursors of
the restarted node are 0, and its next round (after steps that are neither a round nor a crash of `n`) hands out
the committed log again from index 1: the `k`-th entry has index `1 + k`.  (Re-delivery from the start: the
application restarts from scratch; by `cluster_applied_entries_agree_later` the entries are the same as before.) -/
theorem crash_restarts_apply_stream {voters : List Id} {c0 c c2 : Cluster} (hsorted : voters.Pairwise (· < ·))
    (h0 : 0 ∉ voters) (hne : voters ≠ []) (hc : InitCluster voters c0) (h : CReachable c0 c)
    {n : Nat} {rn rn' : RawNode} {cfg : Config} {draws : List Nat} (hn : c.nodes n = some rn)
    (hnv : ∀ m ∈ rn.raft.msgs, m.typ ≠ .vote) (hid : cfg.id = n) (hpv : cfg.preVote = false)
    (has : cfg.asyncStorageWrites = false) (happ : cfg.applied = 0)
    (hnew : RawNode.new cfg rn.raft.log.storage draws = .ok rn') :
    rn'.raft.log.applying = 0 ∧ rn'.raft.log.applied = 0 ∧
    ∀ {rn2 rn2' : RawNode} {rd2 : Ready} {draws2 : List Nat}, QuietOf n (c.setNode n rn') c2 →
      c2.nodes n = some rn2 → syncRound rn2 draws2 = .ok (rd2, rn2') →
      ∀ k (hk : k < rd2.committedEntries.length), rd2.committedEntries[k].index = 1 + k := by
  have S : Setting voters c0 c := ⟨hsorted, h0, hne, hc, h⟩
  obtain ⟨s, _, hR⟩ := S.related (fun _ _ => 0)
  have hcur := new_cursors (hR.rs.ra.base.nodes n rn hn).inv.wf.storage happ hnew
  have hoff : rn.raft.log.storage.offset = 0 := (base_zero hR hn).2
  rw [hoff] at hcur
  have ha : rn'.raft.log.applying = 0 := congrArg Prod.fst hcur
  refine ⟨ha, congrArg Prod.snd hcur, ?_⟩
  intro rn2 rn2' rd2 draws2 hq hn2 hr2 k hk
  have h1 := h.step (.crash n rn rn' cfg draws hn hnv hid hpv has happ hnew)
  have S2 : Setting voters c0 c2 := ⟨hsorted, h0, hne, hc, hq.reaches.creachable h1⟩
  obtain ⟨x, hx, ex⟩ := hq.cursors (rn := rn') (by simp [Cluster.setNode])
  rw [hn2] at hx
  obtain rfl := Option.some.inj hx
  have ea : rn2.raft.log.applying = rn'.raft.log.applying := congrArg Prod.fst ex
  rw [handed_out_contig S2 hn2 hr2 k hk, ea, ha]

end RaftVerif.SimCor
