import RaftVerif.Proofs.StepRestore
import RaftVerif.Proofs.StepRouted
import RaftVerif.Proofs.StepProp
import RaftVerif.Proofs.StepElect
/-!
# Props/LocalStep — local (single node, any input) theorems about `Raft.step` and friends

Property theorems only; the machinery is in `Proofs/Monad.lean` (`Spec`, `wp`), `Proofs/StepFrame.lean`
(relations `SendFrame`, `Good`), `Proofs/StepSend|StepGood|StepRoles|StepMain|StepTick.lean`.
All statements are about plain `.run` of the model's state monad; `throw` (a Go panic) never yields
`.ok`, so "successful run" hypotheses exclude exactly the panicking executions.

## C07 — HardState is monotone

`TermOK m` (a message with `term = 0` is not a MsgApp / MsgHeartbeat / MsgSnap) is **necessary**: see
`step_term_regress_example` below — the model (and raft.go:1706-1712 `becomeFollower(m.Term, …)` after
the `m.Term == 0` shortcut of `Step`) lowers the term of a candidate to 0 on such a message.
-/
namespace RaftVerif.LocalStep
open Raft

/-! ### C07 for `Raft.step` -/

/-- **C07** the term never goes back in a `Step` (any fuel, state, message type, message term) -/
theorem step_term_mono (fuel : Nat) (m : Message) (r r' : Raft) (e : Option StepErr) (hm : TermOK m)
    (h : (Raft.step fuel m).run r = .ok (e, r')) : r.term ≤ r'.term :=
  ((step_good fuel m r hm).elim h).term

/-- **C07** within a term the vote only changes from none to some id -/
theorem step_vote_once (fuel : Nat) (m : Message) (r r' : Raft) (e : Option StepErr) (hm : TermOK m)
    (h : (Raft.step fuel m).run r = .ok (e, r')) (ht : r'.term = r.term) : r'.vote = r.vote ∨ r.vote = 0 :=
  ((step_good fuel m r hm).elim h).vote ht

/-- **C07** the commit index never goes back in a `Step` -/
theorem step_commit_mono (fuel : Nat) (m : Message) (r r' : Raft) (e : Option StepErr) (hm : TermOK m)
    (h : (Raft.step fuel m).run r = .ok (e, r')) : r.log.committed ≤ r'.log.committed :=
  ((step_good fuel m r hm).elim h).commit

/-! ### C07 for `Raft.tick` (no hypothesis) -/

theorem tick_term_mono (r r' : Raft) (h : Raft.tick.run r = .ok ((), r')) : r.term ≤ r'.term :=
  ((tick_good r).elim h).term
theorem tick_vote_once (r r' : Raft) (h : Raft.tick.run r = .ok ((), r')) (ht : r'.term = r.term) :
    r'.vote = r.vote ∨ r.vote = 0 := ((tick_good r).elim h).vote ht
theorem tick_commit_mono (r r' : Raft) (h : Raft.tick.run r = .ok ((), r')) :
    r.log.committed ≤ r'.log.committed := ((tick_good r).elim h).commit

/-! ### C07 for `Raft.applyConfChange` (no hypothesis) -/

theorem applyConfChange_term_mono (cc : ConfChangeV2) (r r' : Raft) (cs : ConfState)
    (h : (Raft.applyConfChange cc).run r = .ok (cs, r')) : r.term ≤ r'.term :=
  ((applyConfChange_good cc r).elim h).term
theorem applyConfChange_vote_once (cc : ConfChangeV2) (r r' : Raft) (cs : ConfState)
    (h : (Raft.applyConfChange cc).run r = .ok (cs, r')) (ht : r'.term = r.term) :
    r'.vote = r.vote ∨ r.vote = 0 := ((applyConfChange_good cc r).elim h).vote ht
theorem applyConfChange_commit_mono (cc : ConfChangeV2) (r r' : Raft) (cs : ConfState)
    (h : (Raft.applyConfChange cc).run r = .ok (cs, r')) : r.log.committed ≤ r'.log.committed :=
  ((applyConfChange_good cc r).elim h).commit

/-! ### C07 for `RawNode.advance` (replays `stepsOnAdvance`; each replayed message must be `TermOK`) -/

theorem advance_term_mono (rn rn' : RawNode) (draws : List Nat) (hms : ∀ m ∈ rn.stepsOnAdvance, TermOK m)
    (h : rn.advance draws = .ok rn') : rn.raft.term ≤ rn'.raft.term :=
  (RawNode.advance_good rn rn' draws hms h).term
theorem advance_vote_once (rn rn' : RawNode) (draws : List Nat) (hms : ∀ m ∈ rn.stepsOnAdvance, TermOK m)
    (h : rn.advance draws = .ok rn') (ht : rn'.raft.term = rn.raft.term) :
    rn'.raft.vote = rn.raft.vote ∨ rn.raft.vote = 0 := (RawNode.advance_good rn rn' draws hms h).vote ht
theorem advance_commit_mono (rn rn' : RawNode) (draws : List Nat) (hms : ∀ m ∈ rn.stepsOnAdvance, TermOK m)
    (h : rn.advance draws = .ok rn') : rn.raft.log.committed ≤ rn'.raft.log.committed :=
  (RawNode.advance_good rn rn' draws hms h).commit

/-! ### non-vacuity and the counterexample -/

/-- a follower in term 0 -/
def exFollower : Raft := { cfg := { id := 1 }, draws := [0] }
/-- a candidate in term 5 that voted for itself -/
def exCandidate : Raft := { cfg := { id := 1 }, term := 5, vote := 1, state := .candidate, draws := [3] }

/-- a vote request of a higher term runs, raises the term and records the vote -/
example : ((Raft.step 3 { typ := .vote, «from» := 2, to := 1, term := 3 }).run exFollower).toOption.map
    (fun p => (p.2.term, p.2.vote)) = some (3, 2) := by
  rw [Raft.step]; decide +kernel

/-- **the hypothesis `TermOK` cannot be dropped**: a MsgApp with term 0 takes a candidate of term 5 back
to term 0 and erases its vote (`Step` skips the term check for term 0, `stepCandidate` then calls
`becomeFollower(m.Term = 0, m.From)`) -/
theorem step_term_regress_example :
    ((Raft.step 3 { typ := .app, «from» := 2, to := 1, term := 0 }).run exCandidate).toOption.map
      (fun p => (p.2.term, p.2.vote, p.2.lead)) = some (0, 0, 2) := by
  rw [Raft.step, Raft.stepCandidate]; decide +kernel

/-! ## C17 — PreVote and CheckQuorum prevent disruption -/

/-- **C17** receiving a MsgPreVote — any term, any content, in any state — never changes the receiver's
term or vote (in fact nothing but the outgoing queues changes, see `step_preVote_sf`) -/
theorem prevote_leaves_term_vote (fuel : Nat) (m : Message) (r r' : Raft) (e : Option StepErr)
    (ht : m.typ = .preVote) (h : (Raft.step fuel m).run r = .ok (e, r')) :
    r'.term = r.term ∧ r'.vote = r.vote ∧ r'.lead = r.lead ∧ r'.state = r.state ∧ r'.log = r.log :=
  have hf := (step_preVote_sf fuel m r ht).elim h
  ⟨hf.term, hf.vote, hf.lead, hf.state, hf.log⟩

/-- **C17** `becomePreCandidate` leaves term and vote (and the log) untouched -/
theorem becomePreCandidate_leaves_term_vote (r r' : Raft) (h : Raft.becomePreCandidate.run r = .ok ((), r')) :
    r'.term = r.term ∧ r'.vote = r.vote ∧ r'.log = r.log ∧ r'.state = .preCandidate := by
  obtain ⟨_, rfl⟩ := (becomePreCandidate_spec r).elim h
  exact ⟨rfl, rfl, rfl, rfl⟩

/-- **C17** with CheckQuorum, a node that heard from its leader within the last election timeout ignores
a non-forced vote / pre-vote request of a higher term completely: `Step` succeeds, returns no error,
and the state (term, vote, queues, everything) is unchanged -/
theorem in_lease_request_ignored (fuel : Nat) (m : Message) (r : Raft)
    (hq : r.cfg.checkQuorum = true) (hl : r.lead ≠ 0) (he : r.electionElapsed < r.cfg.electionTimeout)
    (ht : m.typ = .vote ∨ m.typ = .preVote) (hterm : m.term > r.term)
    (hc : m.context ≠ some campaignTransferCtx) :
    (Raft.step (fuel + 1) m).run r = .ok (none, r) :=
  (step_inLease_tot fuel m r hq hl he ht hterm hc).run_eq

/-- a follower of leader 2, in its lease -/
def exInLease : Raft :=
  { cfg := { id := 1, checkQuorum := true }, term := 4, lead := 2, electionElapsed := 3 }

/-- non-vacuity: the hypotheses of `in_lease_request_ignored` hold for a concrete follower and request -/
example : (Raft.step 3 { typ := .vote, «from» := 3, to := 1, term := 9 }).run exInLease = .ok (none, exInLease) :=
  in_lease_request_ignored 2 _ exInLease rfl (by decide) (by decide) (Or.inl rfl) (by decide) (by decide)

/-- non-vacuity for `prevote_leaves_term_vote`: a pre-vote request for term 9 is answered (granted) by a
term-0 follower, whose term and vote stay 0 -/
example : ((Raft.step 3 { typ := .preVote, «from» := 2, to := 1, term := 9 }).run exFollower).toOption.map
    (fun p => (p.2.term, p.2.vote, p.2.msgsAfterAppend.map (fun x => (x.typ, x.term, x.reject)))) =
    some (0, 0, [(.preVoteResp, 9, false)]) := by
  rw [Raft.step]; decide +kernel

/-! ## C02 — one vote per term, granted only to an up-to-date candidate -/

/-- **C02** (`canVote` + `isUpToDate`, raft.go:1214-1252) a MsgVote of the node's own term that changes
the recorded vote to the requester is granted only if the node had not voted, knows no leader, and the
candidate's log is at least as up to date; and the grant is a non-rejecting MsgVoteResp for the
requester, carrying the request's term, appended to `msgsAfterAppend` — the queue released only after
the HardState is durable — never to `msgs` -/
theorem vote_grant_rule (fuel : Nat) (m : Message) (r r' : Raft) (e : Option StepErr)
    (ht : m.typ = .vote) (hterm : m.term = r.term)
    (h : (Raft.step fuel m).run r = .ok (e, r')) (hv : r'.vote = m.from) (hne : r.vote ≠ m.from) :
    r.vote = 0 ∧ r.lead = 0 ∧ r.log.isUpToDate { term := m.logTerm, index := m.index } = .ok true ∧
    r'.term = r.term ∧ r'.msgs = r.msgs ∧
    ∃ resp, r'.msgsAfterAppend = r.msgsAfterAppend ++ [resp] ∧ resp.typ = .voteResp ∧ resp.reject = false ∧
      resp.to = m.from ∧ resp.term = m.term := by
  cases fuel with
  | zero =>
    rw [Raft.step] at h
    exact absurd h (by simp [StateT.run, throw, throwThe, MonadExceptOf.throw, StateT.lift, bind, Except.bind])
  | succ fuel =>
    obtain ⟨_, b, hb, hcase⟩ := (step_vote_same_term_spec fuel m r ht hterm).elim h
    rcases hcase with ⟨hc, rfl⟩ | ⟨_, rfl⟩
    · have hres := stamped_voteResp r
        { to := m.from, term := if false = true then r.term else m.term, typ := .voteResp, reject := false } rfl
      simp only [Bool.and_eq_true, Bool.or_eq_true, beq_iff_eq] at hc
      obtain ⟨hcv, rfl⟩ := hc
      rcases hcv with hcv | ⟨h1, h2⟩
      · exact absurd hcv hne
      · exact ⟨h1, h2, hb, rfl, rfl, _, rfl, hres.1, hres.2.2.1, hres.2.1, by simpa [Raft.voteResp] using hres.2.2.2⟩
    · exact absurd hv hne

/-- non-vacuity: a fresh follower grants its vote in its own term -/
example : ((Raft.step 3 { typ := .vote, «from» := 2, to := 1, term := 4 }).run
      { exFollower with term := 4 }).toOption.map
    (fun p => (p.2.vote, p.2.msgs.length, p.2.msgsAfterAppend.map (fun x => (x.typ, x.to, x.reject)))) =
    some (2, 0, [(.voteResp, 2, false)]) := by
  rw [Raft.step]; decide +kernel

/-- **C02** (`stepCandidate`, raft.go:1687-1716 with the own-vote guard) the only path on which a node
that is not leader comes out of `stepCandidate` as leader: it is a *candidate* (a pre-candidate first has
to campaign again), the message is a MsgVoteResp, after recording that vote the joint tally is `won`, and
the node's **own** vote — released to it only after its HardState (term, vote) was durable — is among the
recorded votes -/
theorem becomeLeader_requires_own_vote (fuel : Nat) (m : Message) (r r' : Raft) (e : Option StepErr)
    (hs : r.state ≠ .leader) (h : (Raft.stepCandidate fuel m).run r = .ok (e, r')) (hl : r'.state = .leader) :
    r.state = .candidate ∧ m.typ = .voteResp ∧
    (r.trk.recordVote m.from (!m.reject)).tallyVotes.2.2 = .won ∧
    (mapGet (r.trk.recordVote m.from (!m.reject)).votes r.cfg.id).isSome = true :=
  (stepCandidate_leader_spec fuel m r hs).elim h hl

/-- a single-voter candidate of term 2 whose own vote response is still in flight -/
def exSoleCandidate : Raft :=
  { cfg := { id := 1 }, term := 2, vote := 1, state := .candidate, log := RaftLog.new {} 1000, draws := [0],
    trk := { cfg := { voters := [1] }, progress := [(1, { match_ := 0, next := 1 })], maxInflight := 16 } }

/-- non-vacuity: its own MsgVoteResp makes it leader -/
example : ((Raft.stepCandidate 2 { typ := .voteResp, «from» := 1, to := 1, term := 2 }).run
      exSoleCandidate).toOption.map (fun p => (p.2.state, p.2.lead, p.2.term)) = some (.leader, 1, 2) := by
  rw [Raft.stepCandidate]; decide +kernel

/-! ## C09 — snapshot install never rolls back or forks a node -/

/-- **C09** `Raft.restore`, guard by guard (`RestorePost`, in the order of raft.go:1860-1942):
1. `s.index ≤ committed`           → `false`, state unchanged;
2. not follower                     → `false`, `becomeFollower(term+1, None)`, log unchanged;
3. node not in the snapshot's ConfState → `false`, state unchanged;
4. `matchTerm(s.index, s.term)`     → `false`, only `committed := s.index` (and `s.index ≤ lastIndex`);
5. otherwise install                → `true`, `log = raftLog.restore(s)`, term/vote/lead/queues unchanged,
   the installed configuration is equivalent to the snapshot's. -/
theorem restore_spec (snap : Snapshot) (r r' : Raft) (ok : Bool)
    (h : (Raft.restore snap).run r = .ok (ok, r')) : RestorePost snap r ok r' :=
  (restore_spec' snap r).elim h

/-- **C09** the install case: exactly the snapshot's index/term/membership is the new log base -/
theorem restore_install (snap : Snapshot) (r r' : Raft) (h : (Raft.restore snap).run r = .ok (true, r')) :
    snap.index > r.log.committed ∧ r.state = .follower ∧ inConf snap.conf r.cfg.id = true ∧
    r.log.matchTerm { term := snap.term, index := snap.index } = false ∧
    r'.log.committed = snap.index ∧ r'.log.unstable.snapshot = some snap ∧ r'.log.unstable.entries = [] ∧
    r'.log.unstable.offset = snap.index + 1 ∧ r'.log.lastIndex = snap.index ∧
    r'.log.storage = r.log.storage ∧ r'.log.applied = r.log.applied ∧
    r'.term = r.term ∧ r'.vote = r.vote ∧ snap.conf.equivalent r'.trk.confState = true := by
  have hp := restore_spec snap r r' true h
  unfold RestorePost at hp
  by_cases h1 : snap.index ≤ r.log.committed
  · simp [h1] at hp
  · by_cases h2 : r.state = .follower
    · by_cases h3 : inConf snap.conf r.cfg.id = true
      · by_cases h4 : r.log.matchTerm { term := snap.term, index := snap.index } = true
        · simp [h1, h2, h3, h4] at hp
        · simp only [h1, h2, h3, h4, if_false, ne_eq, not_true_eq_false, Bool.true_eq_false] at hp
          obtain ⟨_, hl, ht, hv, _, _, _, _, heq⟩ := hp
          refine ⟨by omega, h2, h3, by simpa using h4, ?_, ?_, ?_, ?_, ?_, ?_, ?_, ht, hv, heq⟩ <;> rw [hl] <;> try rfl
      · have : inConf snap.conf r.cfg.id = false := by simpa using h3
        simp [h1, h2, this] at hp
    · simp [h1, h2] at hp

/-- a snapshot at index 5, term 2 for the configuration {1, 2} -/
def exSnap : Snapshot := { index := 5, term := 2, conf := { voters := [1, 2] } }

/-- non-vacuity: a fresh follower installs `exSnap` (`restore` returns `true`) -/
example : ((Raft.restore exSnap).run exFollower).toOption.map
    (fun p => (p.1, p.2.log.committed, p.2.log.lastIndex, p.2.trk.cfg.voters)) = some (true, 5, 5, [1, 2]) := by
  decide +kernel

/-- **C09** accepting (or refusing) a snapshot never lowers the commit index -/
theorem restore_commit_mono (snap : Snapshot) (r r' : Raft) (ok : Bool)
    (h : (Raft.restore snap).run r = .ok (ok, r')) : r.log.committed ≤ r'.log.committed :=
  ((restore_good snap r).elim h).commit

/-- **C09** a snapshot at or below the commit index, or one whose (index, term) matches the local log, is
not installed: the entries (unstable part and storage) stay, at most `committed` is fast-forwarded -/
theorem restore_not_installed (snap : Snapshot) (r r' : Raft) (ok : Bool)
    (h : (Raft.restore snap).run r = .ok (ok, r'))
    (hg : snap.index ≤ r.log.committed ∨ r.log.matchTerm { term := snap.term, index := snap.index } = true) :
    ok = false ∧ r'.log.unstable = r.log.unstable ∧ r'.log.storage = r.log.storage ∧
    r.log.committed ≤ r'.log.committed := by
  have hc := restore_commit_mono snap r r' ok h
  have hp := restore_spec snap r r' ok h
  unfold RestorePost at hp
  by_cases h1 : snap.index ≤ r.log.committed
  · simp only [h1, if_true] at hp
    obtain ⟨rfl, rfl⟩ := hp
    exact ⟨rfl, rfl, rfl, hc⟩
  · have h4 := hg.resolve_left h1
    by_cases h2 : r.state = .follower
    · by_cases h3 : inConf snap.conf r.cfg.id = true
      · simp only [h1, h2, h3, h4, if_false, if_true, ne_eq, not_true_eq_false, Bool.true_eq_false] at hp
        obtain ⟨rfl, rfl, _⟩ := hp
        exact ⟨rfl, rfl, rfl, hc⟩
      · have : inConf snap.conf r.cfg.id = false := by simpa using h3
        simp only [h1, h2, this, if_false, if_true, ne_eq, not_true_eq_false] at hp
        obtain ⟨rfl, rfl⟩ := hp
        exact ⟨rfl, rfl, rfl, hc⟩
    · simp only [h1, h2, if_false, if_true, ne_eq, not_false_eq_true] at hp
      obtain ⟨rfl, _, _, _, _, hl⟩ := hp
      exact ⟨rfl, by rw [hl], by rw [hl], hc⟩

/-! ## C05 — promises are routed through `msgsAfterAppend` -/

/-- **C05** `send` appends the (stamped) message to `msgsAfterAppend` iff its type is MsgAppResp,
MsgVoteResp or MsgPreVoteResp, otherwise to `msgs`; the other queue and everything else is untouched -/
theorem send_routes (m : Message) (r r' : Raft) (h : (Raft.send m).run r = .ok ((), r')) :
    (isPromise m.typ = true ∧ r' = { r with msgsAfterAppend := r.msgsAfterAppend ++ [stamped r m] }) ∨
    (isPromise m.typ = false ∧ r' = { r with msgs := r.msgs ++ [stamped r m] }) :=
  (send_spec m r).elim h

theorem send_promise_iff (m : Message) (r r' : Raft) (h : (Raft.send m).run r = .ok ((), r')) :
    (isPromise m.typ = true ↔ r'.msgsAfterAppend = r.msgsAfterAppend ++ [stamped r m] ∧ r'.msgs = r.msgs) ∧
    (isPromise m.typ = false ↔ r'.msgs = r.msgs ++ [stamped r m] ∧ r'.msgsAfterAppend = r.msgsAfterAppend) ∧
    (stamped r m).typ = m.typ := by
  refine ⟨?_, ?_, stamped_typ r m⟩ <;> rcases send_routes m r r' h with ⟨hp, rfl⟩ | ⟨hp, rfl⟩ <;> simp [hp]

/-- **C05** for *every* message (no hypothesis): whatever a `Step` adds to `msgs` — the queue handed out
immediately — is never a MsgAppResp / MsgVoteResp / MsgPreVoteResp; `msgs` is only appended to -/
theorem promise_msgs_gated (fuel : Nat) (m : Message) (r r' : Raft) (e : Option StepErr)
    (h : (Raft.step fuel m).run r = .ok (e, r')) :
    ∃ added, r'.msgs = r.msgs ++ added ∧ ∀ x ∈ added, isPromise x.typ = false :=
  ((step_routed fuel m r).elim h).msgs

/-- **C05** dually, `msgsAfterAppend` only ever receives promises -/
theorem after_append_only_promises (fuel : Nat) (m : Message) (r r' : Raft) (e : Option StepErr)
    (h : (Raft.step fuel m).run r = .ok (e, r')) :
    ∃ added, r'.msgsAfterAppend = r.msgsAfterAppend ++ added ∧ ∀ x ∈ added, isPromise x.typ = true :=
  ((step_routed fuel m r).elim h).maa

/-- the same for `tick` and `RawNode.advance` -/
theorem tick_promise_msgs_gated (r r' : Raft) (h : Raft.tick.run r = .ok ((), r')) :
    ∃ added, r'.msgs = r.msgs ++ added ∧ ∀ x ∈ added, isPromise x.typ = false :=
  ((tick_routed r).elim h).msgs
theorem advance_promise_msgs_gated (rn rn' : RawNode) (draws : List Nat) (h : rn.advance draws = .ok rn') :
    ∃ added, rn'.raft.msgs = rn.raft.msgs ++ added ∧ ∀ x ∈ added, isPromise x.typ = false :=
  (RawNode.advance_routed rn rn' draws h).msgs

/-- **C07** (commit part, no hypothesis on the message): `Step` never lowers the commit index -/
theorem step_commit_mono' (fuel : Nat) (m : Message) (r r' : Raft) (e : Option StepErr)
    (h : (Raft.step fuel m).run r = .ok (e, r')) : r.log.committed ≤ r'.log.committed :=
  ((step_routed fuel m r).elim h).commit
theorem advance_commit_mono' (rn rn' : RawNode) (draws : List Nat) (h : rn.advance draws = .ok rn') :
    rn.raft.log.committed ≤ rn'.raft.log.committed := (RawNode.advance_routed rn rn' draws h).commit

/-- non-vacuity: an append from the leader is acknowledged through `msgsAfterAppend`, nothing goes to `msgs` -/
example : ((Raft.step 3 { typ := .app, «from» := 2, to := 1, term := 4 }).run
      { exFollower with term := 4 }).toOption.map
    (fun p => (p.2.msgs.length, p.2.msgsAfterAppend.map (fun x => (x.typ, x.to, x.reject)))) =
    some (0, [(.appResp, 2, false)]) := by
  rw [Raft.step, Raft.stepFollower]; decide +kernel

/-! ## C20 — proposal integrity -/

/-- `step 0` always panics ("nesting deeper than expected"): it never yields `.ok` -/
theorem step_zero_no_run (m : Message) (r r' : Raft) (e : Option StepErr) :
    (Raft.step 0 m).run r ≠ .ok (e, r') := by
  rw [Raft.step]
  simp [StateT.run, throw, throwThe, MonadExceptOf.throw, StateT.lift, bind, Except.bind]

/-- **C20 dropped means dropped**: when `Step` of a MsgProp — any term, any role: leader without own
progress / with a transfer in flight / over the uncommitted-size limit, candidate, follower without
leader or with forwarding disabled — returns `ErrProposalDropped`, the log and both message queues are
unchanged -/
theorem prop_dropped_no_effect (fuel : Nat) (m : Message) (r r' : Raft) (ht : m.typ = .prop)
    (h : (Raft.step fuel m).run r = .ok (some .proposalDropped, r')) :
    r'.log = r.log ∧ r'.msgs = r.msgs ∧ r'.msgsAfterAppend = r.msgsAfterAppend := by
  cases fuel with
  | zero => exact absurd h (step_zero_no_run m r r' _)
  | succ fuel =>
    have hq := (step_prop_dropped fuel m r ht).elim h rfl
    exact ⟨hq.log, hq.msgs, hq.maa⟩

/-- **C20 forwarding is verbatim**: a follower that knows a leader (and may forward) answers a local
MsgProp by queueing exactly one message: the proposal itself — same type, same entries, term 0 —
addressed to the leader (an empty `from` is filled in with the node's id); nothing else changes -/
theorem follower_forwards_verbatim (fuel : Nat) (m : Message) (r r' : Raft) (e : Option StepErr)
    (ht : m.typ = .prop) (h0 : m.term = 0) (hs : r.state = .follower) (hl : r.lead ≠ 0)
    (hf : r.cfg.disableProposalForwarding = false)
    (h : (Raft.step (fuel + 1) m).run r = .ok (e, r')) :
    e = none ∧
    r' = { r with msgs := r.msgs ++ [{ m with to := r.lead, «from» := if m.from = 0 then r.cfg.id else m.from }] } := by
  have hsp := (step_prop_local fuel m r _ ht h0
    (fun hL => by rw [hs] at hL; cases hL)
    (fun hC => by rw [hs] at hC; rcases hC with hC | hC <;> cases hC)
    (fun _ => stepFollower_prop_spec fuel m r ht)).elim h
  have hc : ¬ (r.lead = 0 ∨ r.cfg.disableProposalForwarding = true) := by simp [hl, hf]
  rw [if_neg hc] at hsp
  exact ⟨hsp.1, hsp.2.2⟩

/-- **C20 the leader appends exactly the proposal**: when a leader accepts a local MsgProp (`Step`
returns no error), the unstable log is the old one followed by the proposal's entries, in order,
stamped with `(term, lastIndex + 1 + i)`; type and payload of each entry are kept, except that a
configuration-change entry may have been replaced by the empty normal entry
`{typ := some .normal, data := none}`; storage, offset, commit index are untouched.
(`hwf` is the log invariant `lastIndex + 1 = unstable.offset + len(unstable.entries)`.) -/
theorem leader_prop_appends_exactly (fuel : Nat) (m : Message) (r r' : Raft)
    (ht : m.typ = .prop) (h0 : m.term = 0) (hs : r.state = .leader)
    (hwf : r.log.lastIndex + 1 = r.log.unstable.offset + r.log.unstable.entries.length)
    (h : (Raft.step (fuel + 1) m).run r = .ok (none, r')) :
    ∃ ents : List Entry, Pairwise2 PropRel m.entries.zipIdx ents ∧
      r'.log = { r.log with unstable := { r.log.unstable with entries := r.log.unstable.entries ++ cloned r ents } } ∧
      r'.term = r.term ∧ r'.vote = r.vote ∧ r'.state = .leader := by
  have hsp := (step_prop_local fuel m r _ ht h0
    (fun _ => stepLeader_prop_accept fuel m r ht hwf)
    (fun hC => by rw [hs] at hC; rcases hC with hC | hC <;> cases hC)
    (fun hF => by rw [hs] at hF; cases hF)).elim h rfl
  obtain ⟨ents, h1, h2, h3, h4, h5⟩ := hsp
  exact ⟨ents, h1, h2, h3, h4, by rw [h5, hs]⟩

/-- the stamping used in `leader_prop_appends_exactly` -/
theorem cloned_eq (r : Raft) (ents : List Entry) :
    cloned r ents = ents.zipIdx.map fun (e, i) => { e with term := r.term, index := r.log.lastIndex + 1 + i } := rfl

/-- the element-wise relation of `leader_prop_appends_exactly` in plain words -/
theorem propRel_iff (e : Entry) (i : Nat) (y : Entry) :
    PropRel (e, i) y ↔ y = e ∨ (e.getType ≠ .normal ∧ y = { typ := some .normal, data := none }) := Iff.rfl

/-- a follower of leader 2 -/
def exFollowerOf2 : Raft := { cfg := { id := 1 }, term := 4, lead := 2 }

/-- non-vacuity of `follower_forwards_verbatim` -/
example : ((Raft.step 3 { typ := .prop, entries := [{ data := some [7] }] }).run exFollowerOf2).toOption.map
    (fun p => (p.1, p.2.msgs.map (fun x => (x.to, x.from, x.term)),
      (p.2.msgs.map (·.entries)).flatten.map (fun e => (e.data.getD []).map UInt8.toNat))) =
    some (none, [(2, 1, 0)], [[7]]) := by
  rw [Raft.step, Raft.stepFollower]; decide +kernel

/-- non-vacuity of `prop_dropped_no_effect`: a follower without leader drops the proposal -/
example : ((Raft.step 3 { typ := .prop, entries := [{ data := some [7] }] }).run exFollower).toOption.map
    (fun p => (p.1, p.2.msgs.length, p.2.log.lastIndex)) = some (some .proposalDropped, 0, 0) := by
  rw [Raft.step, Raft.stepFollower]; decide +kernel

/-- a single-voter leader in term 1 with an empty, well-formed log -/
def exLeader : Raft :=
  { cfg := { id := 1 }, term := 1, vote := 1, lead := 1, state := .leader, log := RaftLog.new {} 1000,
    trk := { cfg := { voters := [1] }, progress := [(1, { match_ := 0, next := 1, state := .replicate })],
             maxInflight := 16 } }

/-- non-vacuity of `leader_prop_appends_exactly`: the proposal is stamped (term 1, index 1) and appended -/
example : ((Raft.step 3 { typ := .prop, entries := [{ data := some [7] }] }).run exLeader).toOption.map
    (fun p => (p.1, p.2.log.unstable.entries)) =
    some (none, [{ term := 1, index := 1, data := some [7] }]) := by
  rw [Raft.step, Raft.stepLeader]; decide +kernel

end RaftVerif.LocalStep
