import RaftVerif.Proofs.RefineRProp
/-!
# Props/RefinementR — local refinement `Model.Raft.step ⊑ SpecR` for the configuration-related steps

Property theorems only (machinery: `Proofs/RefineR*.lean`, namespace `RaftVerif.RefineR`).  The analogue of
`Props/Refinement.lean` (static protocol `Spec/Raft.lean`) for `Spec/Reconf.lean`.

## Abstraction

* `absConf t = (t.cfg.voters, t.outgoingL)` (`absConfC` on a `TrackerConfig`): the model keeps id sets as
  strictly ascending lists (`ConfWF`, part of `ConfInvStrong`), so the lists themselves are the canonical
  "sorted voters"; learners are dropped.
* `absEntR val cf e`: term, payload `val e.typ e.data`, `cfg := some (cf e)` exactly for the entries of type
  ConfChange / ConfChangeV2 (`Conf10.isConfChange`); `cf : Entry → SpecR.Conf` is a parameter.
  `absLogR val cf r` maps it over the logical log.
* `AbsR val cf r nd`: `nd.vol.term/vote/commit/log = r.term / r.vote / r.log.committed / absLogR val cf r`,
  `nd.role = absRoleR r.state`, `nd.applied = r.log.applied`, and `nd.pendingConf = r.pendingConfIndex`
  **when `r` is leader** (SpecR: "meaningful for a leader"; the model's `reset` zeroes the field at every
  term change while SpecR keeps it — harmless, both overwrite it at `becomeLeader`).
* the link "the node's tracker holds the active configuration": `absConf r.trk = (s.nodes n).active c0`
  is a hypothesis where needed and is re-established by item 3.
-/
namespace RaftVerif.RefinementR
open RaftVerif.Raft RaftVerif.Refine RaftVerif.RefineR RaftVerif.Conf10 RaftVerif.Quorum

/-! ## 1. configuration abstraction: the quorum predicates agree -/

/-- **(1) `absConf_isQuorum`.**  For every tracker and every set `q`: SpecR's `isQuorum q` on `absConf trk`
holds iff the incoming voter set is non-empty and the model's `jointVote` over the two voter sets, with the
votes "yes exactly from the members of `q`", is `won`.  (For an *empty* incoming set the two differ:
`majorityVote [] = won` by Go's convention, SpecR's `majority [] q = false`; `ConfInvStrong.votersNe`
excludes it — `changer_keeps_voter` below.) -/
theorem absConf_isQuorum (trk : Tracker) (q : List Nat) (votes : Id → Option Bool)
    (hv : ∀ id, votes id = some true ↔ id ∈ q) :
    (absConf trk).isQuorum q = true ↔
      trk.cfg.voters ≠ [] ∧ jointVote trk.cfg.voters trk.outgoingL votes = .won :=
  isQuorum_iff_jointVote trk.cfg.voters trk.outgoingL q votes hv

/-- (1) spelled out: a strict majority of the incoming voters lies in `q`, and, when there are outgoing
voters, a strict majority of those too -/
theorem absConf_isQuorum_majorities (trk : Tracker) (q : List Nat) :
    (absConf trk).isQuorum q = true ↔
      trk.cfg.voters.length < 2 * trk.cfg.voters.countP (fun id => q.contains id) ∧
      (trk.outgoingL = [] ∨ trk.outgoingL.length < 2 * trk.outgoingL.countP (fun id => q.contains id)) :=
  RefineR.absConf_isQuorum_majorities trk q

/-- (1) against the quorum predicate of the static refinement (`Spec.jointCfg`, used by
`Refinement.becomeLeader_refines` / `leaderCommit_refines`) -/
theorem absConf_isQuorum_jointCfg (trk : Tracker) (q : List Nat) (hne : trk.cfg.voters ≠ []) :
    (absConf trk).isQuorum q = true ↔ (Spec.jointCfg trk.cfg.voters trk.outgoingL).isQuorum q = true := by
  rw [RefineR.absConf_isQuorum_majorities, Spec.jointCfg_isQuorum_iff]
  constructor
  · rintro ⟨h1, h2⟩; exact ⟨Or.inr h1, h2⟩
  · rintro ⟨h1, h2⟩; exact ⟨h1.resolve_left hne, h2⟩

/-- the divergence on the empty incoming set, concretely -/
example : jointVote [] [] (fun _ => none) = .won ∧ SpecR.Conf.isQuorum ([], []) [] = false := by decide

/-! ## 2. the Changer produces `Conf.allowed` transitions -/

/-- `Conf.allowed` as a proposition -/
theorem allowed_iff (c c' : SpecR.Conf) :
    c.allowed c' = true ↔
      c'.1 ≠ [] ∧ c'.1.Nodup ∧
      ((c.2 = [] ∧ c'.2 = [] ∧ symdiff c.1 c'.1 ≤ 1) ∨ (c.2 = [] ∧ c'.2 = c.1) ∨
       (c.2 ≠ [] ∧ c'.1 = c.1 ∧ c'.2 = [])) :=
  RefineR.allowed_iff c c'

/-- **(2a) `simple_allowed`.**  An accepted `Simple` on a valid configuration is the *simple* disjunct of
`allowed`: old and new configuration are non-joint, the voter sets differ in at most one id, the new one is
non-empty and duplicate-free.  (A simple change in a joint configuration is refused — "can't apply simple
config change in joint config" — so `absConf old` is non-joint here; `C13.simple_nonjoint`.) -/
theorem simple_allowed (c : Changer) (ccs : List ConfChangeSingle) (cfg' : TrackerConfig) (trk' : ProgressMap)
    (hs : ConfInvStrong c.tracker.cfg c.tracker.progress) (h : c.simple ccs = .ok (cfg', trk')) :
    (absConf c.tracker).allowed (absConfC cfg') = true ∧
    (absConf c.tracker).2 = [] ∧ (absConfC cfg').2 = [] ∧
    symdiff (absConf c.tracker).1 (absConfC cfg').1 ≤ 1 :=
  ⟨RefineR.simple_allowed c ccs cfg' trk' hs h, (simple_shape c ccs cfg' trk' hs h).1,
   (simple_shape c ccs cfg' trk' hs h).2.1, (simple_shape c ccs cfg' trk' hs h).2.2.1⟩

/-- **(2b) `enterJoint_allowed`**: the result is `(V', V)` with `V` the old (non-joint) voters -/
theorem enterJoint_allowed (c : Changer) (al : Bool) (ccs : List ConfChangeSingle) (cfg' : TrackerConfig)
    (trk' : ProgressMap) (hs : ConfInvStrong c.tracker.cfg c.tracker.progress)
    (h : c.enterJoint al ccs = .ok (cfg', trk')) :
    (absConf c.tracker).allowed (absConfC cfg') = true ∧
    (absConf c.tracker).2 = [] ∧ (absConfC cfg').2 = (absConf c.tracker).1 ∧ (absConfC cfg').2 ≠ [] :=
  ⟨RefineR.enterJoint_allowed c al ccs cfg' trk' hs h, (enterJoint_shape c al ccs cfg' trk' hs h).1,
   (enterJoint_shape c al ccs cfg' trk' hs h).2.1, (enterJoint_shape c al ccs cfg' trk' hs h).2.2.1⟩

/-- **(2c) `leaveJoint_allowed`**: from the joint `(V', V)` to `(V', ∅)` -/
theorem leaveJoint_allowed (c : Changer) (cfg' : TrackerConfig) (trk' : ProgressMap)
    (hs : ConfInvStrong c.tracker.cfg c.tracker.progress) (h : c.leaveJoint = .ok (cfg', trk')) :
    (absConf c.tracker).allowed (absConfC cfg') = true ∧
    (absConf c.tracker).2 ≠ [] ∧ (absConfC cfg').1 = (absConf c.tracker).1 ∧ (absConfC cfg').2 = [] :=
  ⟨RefineR.leaveJoint_allowed c cfg' trk' hs h, (leaveJoint_shape c cfg' trk' hs h).1,
   (leaveJoint_shape c cfg' trk' hs h).2.1, (leaveJoint_shape c cfg' trk' hs h).2.2.1⟩

/-- **(2d)** whichever operation `raft.applyConfChange` selects (`applyV2`: `leaveJoint` / `enterJoint` /
`simple`), an accepted change of a valid configuration is an allowed transition and yields a valid
configuration again (so the statement chains along any sequence of changes) -/
theorem applyV2_allowed (c : Changer) (cc : ConfChangeV2) (cfg' : TrackerConfig) (trk' : ProgressMap)
    (hs : ConfInvStrong c.tracker.cfg c.tracker.progress) (h : applyV2 c cc = .ok (cfg', trk')) :
    (absConf c.tracker).allowed (absConfC cfg') = true ∧ ConfInvStrong cfg' trk' :=
  RefineR.applyV2_allowed c cc cfg' trk' hs h

/-- **(2e) "removed all voters" is refused**: after any accepted change the incoming half is non-empty
(and duplicate-free) — the two leading conjuncts of `allowed` -/
theorem changer_keeps_voter (c : Changer) (cc : ConfChangeV2) (cfg' : TrackerConfig) (trk' : ProgressMap)
    (hs : ConfInvStrong c.tracker.cfg c.tracker.progress) (h : applyV2 c cc = .ok (cfg', trk')) :
    (absConfC cfg').1 ≠ [] ∧ (absConfC cfg').1.Nodup := by
  have := ((RefineR.allowed_iff _ _).mp (RefineR.applyV2_allowed c cc cfg' trk' hs h).1)
  exact ⟨this.1, this.2.1⟩

/-- **(2f) learner-only changes stutter**: a change that leaves both voter sets alone (adding, removing,
promoting … learners) gives the same `absConf`, and `allowed c c` holds for every non-joint `c` with a
non-empty duplicate-free incoming half -/
theorem allowed_refl (c : SpecR.Conf) (h1 : c.1 ≠ []) (h2 : c.1.Nodup) (h3 : c.2 = []) : c.allowed c = true :=
  RefineR.allowed_refl c h1 h2 h3

/-- in a **joint** configuration `allowed c c` fails: SpecR has no stuttering configuration entry there, and
neither has the model — the only change accepted in a joint configuration is `leaveJoint` -/
theorem allowed_refl_joint_false (c : SpecR.Conf) (h3 : c.2 ≠ []) : c.allowed c = false := by
  cases hb : c.allowed c
  · rfl
  · obtain ⟨_, _, h | h | h⟩ := (RefineR.allowed_iff c c).mp hb
    · exact absurd h.1 h3
    · exact absurd h.1 h3
    · exact absurd h.2.2 h3

/-! ### non-vacuity of (2), and necessity of the representation invariant -/

theorem exBase_strong : ConfInvStrong exBase.tracker.cfg exBase.tracker.progress := by
  refine ⟨(checkInvariants_iff _ _).mp (by rfl), ⟨by decide, by decide, by decide, by decide⟩, by decide, ?_, by decide⟩
  intro id
  simp only [exBase, keys, cfgMember, List.map_cons, List.map_nil, Option.getD_none, List.not_mem_nil, or_false]

/-- the value of an accepted change (examples only) -/
def okVal (x : CE (TrackerConfig × ProgressMap)) : TrackerConfig × ProgressMap :=
  match x with | .ok p => p | .error _ => default

/-- simple: `{1,2,3} → {1,2,3,4}` (the hypotheses of `simple_allowed` are satisfiable) -/
theorem simple_example :
    ∃ cfg' trk', exBase.simple [{ typ := .addNode, nodeId := 4 }] = .ok (cfg', trk') ∧
      absConf exBase.tracker = ([1, 2, 3], []) ∧ absConfC cfg' = ([1, 2, 3, 4], []) ∧
      (absConf exBase.tracker).allowed (absConfC cfg') = true := by
  have h : exBase.simple [{ typ := .addNode, nodeId := 4 }] =
      .ok ((okVal (exBase.simple [{ typ := .addNode, nodeId := 4 }])).1,
           (okVal (exBase.simple [{ typ := .addNode, nodeId := 4 }])).2) := by rfl
  exact ⟨_, _, h, rfl, rfl, (simple_allowed exBase [{ typ := .addNode, nodeId := 4 }] _ _ exBase_strong h).1⟩

/-- a learner-only simple change: same `absConf` -/
example : ∃ cfg' trk', exBase.simple [{ typ := .addLearnerNode, nodeId := 9 }] = .ok (cfg', trk') ∧
    absConfC cfg' = absConf exBase.tracker := ⟨_, _, rfl, rfl⟩

/-- enter joint: `({1,2,3}, ∅) → ({1,2,4}, {1,2,3})` -/
theorem enterJoint_example :
    ∃ trk', exBase.enterJoint true exChanges = .ok (exJointCfg, trk') ∧
      absConfC exJointCfg = ([1, 2, 4], [1, 2, 3]) ∧
      (absConf exBase.tracker).allowed (absConfC exJointCfg) = true := by
  have h : exBase.enterJoint true exChanges =
      .ok (exJointCfg, (okVal (exBase.enterJoint true exChanges)).2) := by rfl
  exact ⟨_, h, rfl, (enterJoint_allowed exBase true exChanges _ _ exBase_strong h).1⟩

/-- leave joint: `({1,2,4}, {1,2,3}) → ({1,2,4}, ∅)` -/
theorem leaveJoint_example :
    ∃ cfg' trk', exJoint.leaveJoint = .ok (cfg', trk') ∧ absConfC cfg' = ([1, 2, 4], []) ∧
      (absConf exJoint.tracker).allowed (absConfC cfg') = true := ⟨_, _, rfl, rfl, by decide⟩

/-- a simple change in a joint configuration, and one that removes the last voter, are refused -/
example : exJoint.simple [{ typ := .addNode, nodeId := 5 }] =
    .error "can't apply simple config change in joint config" := rfl
example : ({ tracker := { cfg := { voters := [1] }, progress := [(1, {})] }, lastIndex := 0 } : Changer).simple
    [{ typ := .removeNode, nodeId := 1 }] = .error "removed all voters" := rfl

/-- **the hypothesis `ConfInvStrong` (strictly ascending voter list) is needed**: on the non-canonical
voter list `[2, 1]` (passes `checkInvariants`) the accepted simple change `addNode 1` yields the voter list
`[1, 2, 1]` — a duplicate — and `allowed` fails.  Not a defect of the model: every configuration the model
builds is canonical (`C13.reachable_valid`). -/
theorem allowed_needs_canonical :
    ∃ cfg' trk', ({ tracker := { cfg := { voters := [2, 1] }, progress := [(1, {}), (2, {})] },
                    lastIndex := 0 } : Changer).simple [{ typ := .addNode, nodeId := 1 }] = .ok (cfg', trk') ∧
      absConfC cfg' = ([1, 2, 1], []) ∧ SpecR.Conf.allowed ([2, 1], []) (absConfC cfg') = false :=
  ⟨_, _, rfl, rfl, by decide⟩

/-! ## 3. `applyConfChange` refines the effect of `applyTo` on the active configuration -/

/-- **(3a) `applyConfChange_absConf`.**  Whenever `Raft.applyConfChange cc` returns on a node holding a valid
configuration: the Changer accepted with some `(cfg, trk)` (again valid); the node's new configuration
abstracts to `absConfC cfg`; that is an allowed successor of the old `absConf r.trk`; the returned ConfState
lists the same two voter sets; on a non-leader the progress map is exactly `trk` (so `ConfInvStrong` holds
of `r'.trk` and the statement chains). -/
theorem applyConfChange_absConf (cc : ConfChangeV2) (r r' : Raft) (cs : ConfState)
    (hs : ConfInvStrong r.trk.cfg r.trk.progress)
    (h : (applyConfChange cc).run r = .ok (cs, r')) :
    ∃ cfg trk, applyV2 (changerOf r) cc = .ok (cfg, trk) ∧ ConfInvStrong cfg trk ∧
      absConf r'.trk = absConfC cfg ∧ (absConf r.trk).allowed (absConf r'.trk) = true ∧
      (cs.voters, cs.votersOutgoing) = absConf r'.trk ∧
      (r.state ≠ .leader → r'.trk.progress = trk) :=
  RefineR.applyConfChange_absConf cc r r' cs hs h

/-- SpecR side of (3): `applyTo n (applied + 1)` over an entry `e` turns the active configuration into
`e.upd active` (`= c` if `e.cfg = some c`, unchanged if `e.cfg = none`) -/
theorem active_applyTo_succ (c0 : SpecR.Conf) (s : SpecR.State) (n : Nat) (e : SpecR.Ent)
    (hat : (s.nodes n).vol.log.at? ((s.nodes n).applied + 1) = some e) :
    ((SpecR.apply s (.applyTo n ((s.nodes n).applied + 1))).nodes n).active c0 =
      e.upd ((s.nodes n).active c0) :=
  RefineR.active_applyTo_succ c0 s n e hat

/-- **(3b) `applyConfChange_refines_applyTo`.**  If the node's real configuration is the abstract node's
active configuration, and the abstract entry at `applied + 1` is annotated with the configuration the
Changer computes for `cc` on the node's tracker, then after `applyConfChange cc` (model) and
`applyTo n (applied + 1)` (SpecR) the real configuration is again the active one, and the step taken by the
active configuration is an `allowed` one. -/
theorem applyConfChange_refines_applyTo (c0 : SpecR.Conf) (s : SpecR.State) (n : Nat)
    (cc : ConfChangeV2) (r r' : Raft) (cs : ConfState) (e : SpecR.Ent)
    (hs : ConfInvStrong r.trk.cfg r.trk.progress)
    (hact : absConf r.trk = (s.nodes n).active c0)
    (hat : (s.nodes n).vol.log.at? ((s.nodes n).applied + 1) = some e)
    (hann : ∀ cfg trk, applyV2 (changerOf r) cc = .ok (cfg, trk) → e.cfg = some (absConfC cfg))
    (h : (applyConfChange cc).run r = .ok (cs, r')) :
    absConf r'.trk = ((SpecR.apply s (.applyTo n ((s.nodes n).applied + 1))).nodes n).active c0 ∧
    ((s.nodes n).active c0).allowed
      (((SpecR.apply s (.applyTo n ((s.nodes n).applied + 1))).nodes n).active c0) = true :=
  RefineR.applyConfChange_refines_applyTo c0 s n cc r r' cs e hs hact hat hann h

/-- (3c) the annotation does not depend on *where* the Changer runs: a node `r2` with the same
configuration (valid: `ConfReach`) and the same `isLearner` flags as the proposing leader `r` computes the
same configuration for `cc` — so annotating the entry with the leader's result at proposal time satisfies
`hann` of (3b) at every node that applies it in that configuration (`C10.changer_accepts_transfer`) -/
theorem annotation_transfers (r r2 : Raft) (cc : ConfChangeV2) (cfg : TrackerConfig) (trk : ProgressMap)
    (hcfg : r2.trk.cfg = r.trk.cfg)
    (hsim : ∀ id, (mapGet r.trk.progress id).map (·.isLearner) = (mapGet r2.trk.progress id).map (·.isLearner))
    (hreach : ConfReach r2.trk.cfg r2.trk.progress)
    (h : applyV2 (changerOf r) cc = .ok (cfg, trk)) :
    ∀ cfg2 trk2, applyV2 (changerOf r2) cc = .ok (cfg2, trk2) → absConfC cfg2 = absConfC cfg := by
  intro cfg2 trk2 h2
  obtain ⟨trk', h3, _⟩ := C10.changer_accepts_transfer (changerOf r) (changerOf r2) cc hcfg hsim hreach cfg trk h
  rw [h3] at h2
  injection h2 with h2
  injection h2 with h2 _
  rw [h2]

/-! ## 4. the campaign guard -/

/-- (4a) on a well-formed uncompacted log without pending snapshot, `hasUnappliedConfChanges` computes
exactly SpecR's `hasCfgIn applied commit` of the abstract log, whatever `val` and `cf` -/
theorem hasUnappliedConfChanges_is_hasCfgIn (val : Val) (cf : Entry → SpecR.Conf) (r : Raft) (hwf : r.log.WF)
    (hunc : Uncompacted r.log) (hsn : r.log.unstable.snapshot = none) :
    hasUnappliedConfChanges.run r =
      .ok ((absLogR val cf r).hasCfgIn r.log.applied r.log.committed, r) :=
  hasUnapplied_run_R val cf r hwf hunc hsn

/-- **(4b) `campaign_refines_R`**: MsgHup without PreVote at a promotable non-leader (well-formed,
uncompacted log), for every SpecR state `s` with `AbsR val cf r (s.nodes n)`.  Either

* a configuration entry lies in `(applied, commit]` of the abstract log: the model does **nothing**
  (`r' = r`), and SpecR's `campaign n` is **not** enabled; or
* none does: the model campaigns (`CampaignPost`: term + 1, vote for self, candidate, one MsgVote per other
  voter, own vote queued as a promise); SpecR's `campaign n` is enabled (all of its guard but `n ≠ 0`, which
  is `r.cfg.id ≠ 0`, `Config.validate`); its effect is `AbsR` of the new state; `sendReqVote n` is then
  enabled and puts `reqVote (term+1) n lastTerm length` into the soup — the content of every queued MsgVote.

In particular: **whenever the model campaigns, `hasCfgIn (absLogR …) applied commit = false`**. -/
theorem campaign_refines_R (val : Val) (cf : Entry → SpecR.Conf) (c0 : SpecR.Conf) (fuel : Nat) (m : Message)
    (r r' : Raft) (e : Option StepErr) (s : SpecR.State) (n : Nat) (ha : AbsR val cf r (s.nodes n))
    (hn : n = r.cfg.id) (hm : m.typ = .hup) (h0 : m.term = 0) (hpv : r.cfg.preVote = false)
    (hnl : r.state ≠ .leader) (hp : Live.promotableB r = true) (hwf : r.log.WF) (hunc : Uncompacted r.log)
    (h : (Raft.step (fuel + 1) m).run r = .ok (e, r')) :
    e = none ∧
    (((absLogR val cf r).hasCfgIn r.log.applied r.log.committed = true ∧ r' = r ∧
        ¬ SpecR.enabled c0 s (.campaign n)) ∨
     ((absLogR val cf r).hasCfgIn r.log.applied r.log.committed = false ∧
        CampaignPost val .election r r' ∧
        (r.cfg.id ≠ 0 → SpecR.enabled c0 s (.campaign n)) ∧
        AbsR val cf r' ((SpecR.apply s (.campaign n)).nodes n) ∧
        SpecR.enabled c0 (SpecR.apply s (.campaign n)) (.sendReqVote n) ∧
        AbsR val cf r' ((SpecR.apply (SpecR.apply s (.campaign n)) (.sendReqVote n)).nodes n) ∧
        (SpecR.apply (SpecR.apply s (.campaign n)) (.sendReqVote n)).msgs =
          SpecR.Msg.reqVote (r.term + 1) n (absLogR val cf r).lastTerm (absLogR val cf r).length :: s.msgs ∧
        (∀ x ∈ voteReqs val .election r, x.typ = .vote ∧
          SpecR.Msg.reqVote x.term x.from x.logTerm x.index =
            SpecR.Msg.reqVote (r.term + 1) n (absLogR val cf r).lastTerm (absLogR val cf r).length))) := by
  have hrun := hasUnapplied_run_R val cf r hwf hunc (promotable_no_snapshot hp)
  have hen := campaign_enabled_R_iff val cf c0 s n r ha
  cases hb : (absLogR val cf r).hasCfgIn r.log.applied r.log.committed with
  | true =>
    rw [hb] at hrun
    obtain ⟨h1, h2⟩ := Refinement.hup_noop fuel m r r' e hm h0 (Or.inr (Or.inr hrun)) h
    refine ⟨h2, Or.inl ⟨rfl, h1, fun hc => ?_⟩⟩
    have := (hen.mp hc).2.2
    rw [hb] at this; cases this
  | false =>
    rw [hb] at hrun
    obtain ⟨he, hpost⟩ := step_hup_refine val fuel m r r' e hm h0 hpv hnl hp hrun hwf hunc h
    have ha' := campaign_abs_node_R val cf s n .election r r' ha hn hpost
    refine ⟨he, Or.inr ⟨rfl, hpost, fun hid => hen.mpr ⟨hnl, by rw [hn]; exact hid, hb⟩, ha',
      sendReqVote_enabled_R c0 s n, sendReqVote_abs_R val cf _ n r' ha',
      apply_sendReqVote_msgs_R val cf s n r ha, ?_⟩⟩
    intro x hx
    obtain ⟨h1, h2, _, _, h3, h4, h5, _⟩ := mem_voteReqs hx
    exact ⟨h1, by rw [h2, h3, h4, h5, hn, absLogR_lastTerm, absLogR_length]⟩

/-! ### non-vacuity of (4): `C10.exFollower` (voters {1,2}; entry 2 is a ConfChangeV2, committed, not applied) -/

/-- the follower of the first example once entry 2 is applied -/
def exFollowerApplied : Raft :=
  { C10.exFollower with log := { C10.exLog2 with applying := 2, applied := 2 } }

example : C10.exFollower.log.WF ∧ Uncompacted C10.exFollower.log ∧ Live.promotableB C10.exFollower = true ∧
    exFollowerApplied.log.WF ∧ Uncompacted exFollowerApplied.log ∧
    Live.promotableB exFollowerApplied = true := by decide

/-- the abstract log: entry 2 carries a configuration, entry 1 does not -/
example (val : Val) (cf : Entry → SpecR.Conf) :
    absLogR val cf C10.exFollower =
      [{ term := 1, val := val none none },
       { term := 1, val := val (some .confChangeV2) (some C10.ccAdd3),
         cfg := some (cf { term := 1, index := 2, typ := some .confChangeV2, data := some C10.ccAdd3 }) }] := rfl

/-- **refusal**: `campaign_refines_R` on `exFollower` lands in the first case — the model does nothing and
SpecR's `campaign 1` is disabled -/
theorem campaign_refused_example (val : Val) (cf : Entry → SpecR.Conf) (c0 : SpecR.Conf) :
    ∃ e r', (Raft.step 3 { typ := .hup }).run C10.exFollower = .ok (e, r') ∧ r' = C10.exFollower ∧
      (absLogR val cf C10.exFollower).hasCfgIn 1 2 = true ∧
      ¬ SpecR.enabled c0 { SpecR.State.init with nodes := fun _ => absNodeR val cf C10.exFollower } (.campaign 1) := by
  have hrun : ((Raft.step 3 { typ := .hup }).run C10.exFollower).toOption.map (fun p => p.2.term) = some 1 := by
    rw [Raft.step]; decide +kernel
  obtain ⟨⟨e, r'⟩, h, _⟩ := Refinement.run_of_toOption hrun
  obtain ⟨_, hc⟩ := campaign_refines_R val cf c0 2 { typ := .hup } C10.exFollower r' e
    { SpecR.State.init with nodes := fun _ => absNodeR val cf C10.exFollower } 1
    (absR_absNodeR val cf C10.exFollower) rfl rfl rfl rfl (by decide) (by decide) (by decide) (by decide) h
  rcases hc with ⟨h1, h2, h3⟩ | ⟨h1, _⟩
  · exact ⟨e, r', h, h2, h1, h3⟩
  · have h1' : (absLogR val cf C10.exFollower).hasCfgIn 1 2 = false := h1
    have : (absLogR val cf C10.exFollower).hasCfgIn 1 2 = true := rfl
    rw [this] at h1'; cases h1'

/-- **campaign**: once entry 2 is applied, `campaign_refines_R` lands in the second case — term 2, candidate,
one MsgVote to voter 2; SpecR's `campaign 1` is enabled and describes the new state -/
theorem campaign_example_R (val : Val) (cf : Entry → SpecR.Conf) (c0 : SpecR.Conf) :
    ∃ e r', (Raft.step 3 { typ := .hup }).run exFollowerApplied = .ok (e, r') ∧ r'.term = 2 ∧
      r'.state = .candidate ∧
      (absLogR val cf exFollowerApplied).hasCfgIn 2 2 = false ∧
      SpecR.enabled c0 { SpecR.State.init with nodes := fun _ => absNodeR val cf exFollowerApplied } (.campaign 1) ∧
      r'.msgs.map (fun x => (x.typ, x.to, x.term, x.logTerm, x.index)) = [(.vote, 2, 2, 1, 2)] := by
  have hrun : ((Raft.step 3 { typ := .hup }).run exFollowerApplied).toOption.map (fun p => p.2.term) = some 2 := by
    rw [Raft.step]; decide +kernel
  obtain ⟨⟨e, r'⟩, h, ht⟩ := Refinement.run_of_toOption hrun
  obtain ⟨_, hc⟩ := campaign_refines_R val cf c0 2 { typ := .hup } exFollowerApplied r' e
    { SpecR.State.init with nodes := fun _ => absNodeR val cf exFollowerApplied } 1
    (absR_absNodeR val cf exFollowerApplied) rfl rfl rfl rfl (by decide) (by decide) (by decide) (by decide) h
  rcases hc with ⟨h1, _⟩ | ⟨h1, hp, h3, _⟩
  · have h1' : (absLogR val cf exFollowerApplied).hasCfgIn 2 2 = true := h1
    have : (absLogR val cf exFollowerApplied).hasCfgIn 2 2 = false := rfl
    rw [this] at h1'; cases h1'
  · refine ⟨e, r', h, ht, hp.state, h1, h3 (by decide), ?_⟩
    rw [hp.msgs]; rfl

/-! ## 6. elections and commit under the active configuration -/

/-- **(6a) `becomeLeader_refines_R`.**  A candidate steps a MsgVoteResp of its own term and comes out as
leader (hypotheses of `Refinement.becomeLeader_refines`), its tracker holding the abstract node's active
configuration (`hact`) with a non-empty incoming half.  With `q = grantedBy (tallyAfter r m)`:

* `q` is a quorum of `absConf r.trk` in SpecR's sense, hence of `(s.nodes n).active c0`;
* SpecR `becomeLeader n q` is enabled given the environment conjuncts (own vote durable,
  `reqVotesCovered`, the votes of `q` are in the soup); proved locally: `role = candidate`, `isQuorum q`;
* the new state is `becomeLeader n q` followed by `leaderAppend n (val none none)` (`AbsR`), including
  **`pendingConf`: SpecR sets `pendingConf := log.length`, the model `pendingConfIndex := lastIndex` — the same
  number** (`r'.pendingConfIndex = r.log.lastIndex = (absLogR val cf r).length`);
* the tracker still holds the active configuration afterwards. -/
theorem becomeLeader_refines_R (val : Val) (cf : Entry → SpecR.Conf) (c0 : SpecR.Conf) (fuel : Nat)
    (m : Message) (r r' : Raft) (e : Option StepErr) (s : SpecR.State) (n : Nat)
    (ha : AbsR val cf r (s.nodes n)) (hact : absConf r.trk = (s.nodes n).active c0)
    (hne : r.trk.cfg.voters ≠ [])
    (ht : m.typ = .voteResp) (hterm : m.term = 0 ∨ m.term = r.term) (hs : r.state = .candidate)
    (hwf : r.log.WF) (hu : Uncompacted r.log)
    (h : (Raft.step (fuel + 1) m).run r = .ok (e, r')) (hl : r'.state = .leader) :
    let q := grantedBy (tallyAfter r m)
    let s2 := SpecR.apply (SpecR.apply s (.becomeLeader n q)) (.leaderAppend n (val none none))
    e = none ∧ WonPost val r m r' ∧
    (absConf r.trk).isQuorum q = true ∧
    (s.nodes n).role = .candidate ∧ ((s.nodes n).active c0).isQuorum q = true ∧
    ((r.term, n) ∈ (s.nodes n).dur.votes →
      SpecR.reqVotesCovered s.msgs r.term n (absLogR val cf r) = true →
      (∀ v ∈ q, v = n ∨ SpecR.Msg.vote r.term v n ∈ s.msgs) → SpecR.enabled c0 s (.becomeLeader n q)) ∧
    SpecR.enabled c0 (SpecR.apply s (.becomeLeader n q)) (.leaderAppend n (val none none)) ∧
    AbsR val cf r' (s2.nodes n) ∧
    r'.pendingConfIndex = r.log.lastIndex ∧ (s2.nodes n).pendingConf = r.log.lastIndex ∧
    absConf r'.trk = (s2.nodes n).active c0 := by
  intro q s2
  obtain ⟨he, hp⟩ := step_voteResp_leader_refine val fuel m r r' e ht hterm hs hwf hu h hl
  obtain ⟨hents, happ, hpci⟩ := step_voteResp_leader_entries fuel m r r' e ht hterm hs hwf h hl
  have hq : (absConf r.trk).isQuorum q = true := (absConf_isQuorum_jointCfg r.trk q hne).mpr hp.quorum
  have hrole : (s.nodes n).role = .candidate := by rw [ha.role, hs]; rfl
  have ha2 : AbsR val cf r' (s2.nodes n) :=
    becomeLeader_abs_R val cf q ha hwf hu hp.term hp.vote hp.commit hp.state hents happ hpci
  refine ⟨he, hp, hq, hrole, hact ▸ hq, ?_, ?_, ha2, hpci, ?_, ?_⟩
  · intro hdur hcov hsoup
    refine ⟨hrole, hact ▸ hq, ?_, ?_, ?_⟩
    · rw [ha.term]; exact hdur
    · rw [ha.term, ha.log]; exact hcov
    · rw [ha.term]; exact hsoup
  · show ((SpecR.apply s (.becomeLeader n q)).nodes n).role = .leader
    rw [becomeLeader_nodes_R]
  · rw [ha2.pendingConf hl, hpci]
  · exact active_kept val cf c0 ha ha2 hwf hu happ
      (by rw [absLogR_becomeLeader val cf hents]; exact List.prefix_append _ _) hp.trkCfg hact

/-- **(6b) `leaderCommit_refines_R`.**  A leader's `Step` (any message, any fuel) after which the commit index
is higher (`c = r'.log.committed`) and the term the same (hypotheses of `Refinement.leaderCommit_refines`),
its tracker holding the active configuration.  The step changes neither the configuration nor
`pendingConfIndex`; `q = ackedBy r' c` (voters of either half with `Match ≥ c`) is a quorum of
`absConf r.trk` in SpecR's sense, hence of the active configuration; SpecR `leaderCommit n c q` is enabled
given that every `v ∈ q` has acknowledged `c` (soup / own durable ack); proved locally: `role = leader`,
`commit < c`, `termAt c = some term`, `isQuorum q`; the effect is `AbsR` of the new state, whose tracker
still holds the active configuration. -/
theorem leaderCommit_refines_R (val : Val) (cf : Entry → SpecR.Conf) (c0 : SpecR.Conf) (fuel : Nat)
    (m : Message) (r r' : Raft) (e : Option StepErr) (s : SpecR.State) (n : Nat)
    (ha : AbsR val cf r (s.nodes n)) (hact : absConf r.trk = (s.nodes n).active c0)
    (hne : r.trk.cfg.voters ≠ [])
    (hs : r.state = .leader) (hwf : r.log.WF) (hu : Uncompacted r.log)
    (h : (Raft.step fuel m).run r = .ok (e, r')) (hadv : r.log.committed < r'.log.committed)
    (ht : r'.term = r.term) :
    let c := r'.log.committed
    let q := ackedBy r' c
    CommitPost val r m r' ∧ r'.trk.cfg = r.trk.cfg ∧ r'.pendingConfIndex = r.pendingConfIndex ∧
    (absConf r.trk).isQuorum q = true ∧
    (s.nodes n).role = .leader ∧ (s.nodes n).vol.commit < c ∧
    (s.nodes n).vol.log.termAt c = some (s.nodes n).vol.term ∧
    ((s.nodes n).active c0).isQuorum q = true ∧
    ((∀ v ∈ q, (v = n ∧ SpecR.hasDurAck (s.nodes n).dur.acks r.term c = true) ∨
        SpecR.hasAck s.msgs r.term v c = true) → SpecR.enabled c0 s (.leaderCommit n c q)) ∧
    AbsR val cf r' ((SpecR.apply s (.leaderCommit n c q)).nodes n) ∧
    absConf r'.trk = ((SpecR.apply s (.leaderCommit n c q)).nodes n).active c0 := by
  intro c q
  have hp := step_leaderCommit_refine val fuel m r r' e hs hwf hu h hadv ht
  have hcfg := step_leaderCommit_trkCfg fuel m r r' e hs h hadv ht
  have hpci := step_leaderCommit_pc fuel m r r' e hs h hadv ht
  have hq : (absConf r.trk).isQuorum q = true := by
    have h1 := hp.quorum
    have e1 : r'.trk.outgoingL = r.trk.outgoingL := by unfold Tracker.outgoingL; rw [hcfg]
    rw [hcfg, e1] at h1
    exact (absConf_isQuorum_jointCfg r.trk q hne).mpr h1
  have hrole : (s.nodes n).role = .leader := by rw [ha.role, hs]; rfl
  have hlt : (s.nodes n).vol.commit < c := by rw [ha.commit]; exact hadv
  have hta : (s.nodes n).vol.log.termAt c = some (s.nodes n).vol.term := by
    rw [ha.log, ha.term, absLogR_termAt, ← hp.log]; exact hp.termAt
  have ha2 := leaderCommit_abs_R val cf q hp hpci ha
  have hlogeq : absLogR val cf r' = absLogR val cf r := by
    unfold absLogR absLogLR; rw [hp.logEq]; rfl
  refine ⟨hp, hcfg, hpci, hq, hrole, hlt, hta, hact ▸ hq, ?_, ha2, ?_⟩
  · intro hsoup
    refine ⟨hrole, hlt, hta, hact ▸ hq, ?_⟩
    rw [ha.term]; exact hsoup
  · exact active_kept val cf c0 ha ha2 hwf hu (by rw [hp.logEq]) (by rw [hlogeq]; exact List.prefix_refl _)
      hcfg hact

/-! ## 5. the propose gate -/

/-- **(5) `leaderAppendCfg_refines`.**  A leader (validation enabled, own progress entry, no leadership
transfer) accepts a local non-empty MsgProp — any batch — on a well-formed uncompacted log; its tracker
holds a valid configuration which is the abstract node's active one.  With `(ents, pci)` the result of the
propose-time gate (`C10.propose_cc_gate`) and `es' = cloneEntries r ents` the stamped entries:

* the abstract log grows by `es'.map (absEntR val cf)`; the new state is `AbsR` of the SpecR state reached by
  one action per entry (`appendAllR`: `leaderAppendCfg n v (cf e)` for a conf-change entry, `leaderAppend n v`
  otherwise) — including **`pendingConf = r'.pendingConfIndex = pci`**; the tracker still holds the active
  configuration;
* every `leaderAppend` of the sequence is enabled in the state reached by its predecessors;
* for every **kept configuration change** `es'[i]` (decoding to `cc`): the Changer accepts `cc` on the
  leader's tracker with some `cfg`; in the state reached by the predecessors **`pendingConf ≤ applied`** (the
  gate's `pendingConfIndex ≤ applied` *at that position*) and **`allowed active (absConfC cfg)`**; so
  `leaderAppendCfg n v (cf es'[i])` is enabled as soon as the annotation is the Changer's result
  (`cf es'[i] = absConfC cfg`); afterwards `pendingConf` is the index of that entry. -/
theorem leaderAppendCfg_refines (val : Val) (cf : Entry → SpecR.Conf) (c0 : SpecR.Conf) (fuel : Nat)
    (m : Message) (r r' : Raft) (s : SpecR.State) (n : Nat)
    (ha : AbsR val cf r (s.nodes n)) (hact : absConf r.trk = (s.nodes n).active c0)
    (hstrong : ConfInvStrong r.trk.cfg r.trk.progress)
    (hm : m.typ = .prop) (h0 : m.term = 0) (hs : r.state = .leader) (hne : m.entries ≠ [])
    (hself : (r.trk.getProgress r.cfg.id).isNone = false) (hlt : r.leadTransferee = 0)
    (hval : r.cfg.disableConfChangeValidation = false) (hwf : r.log.WF) (hu : Uncompacted r.log)
    (h : (Raft.step (fuel + 1) m).run r = .ok (none, r')) :
    ∃ ents pci, gate r r.pendingConfIndex m.entries.zipIdx = .ok (ents, pci) ∧
      absLogR val cf r' = absLogR val cf r ++ (cloneEntries r ents).map (absEntR val cf) ∧
      r'.pendingConfIndex = pci ∧
      AbsR val cf r' ((appendAllR val cf n (cloneEntries r ents) s).nodes n) ∧
      absConf r'.trk = ((appendAllR val cf n (cloneEntries r ents) s).nodes n).active c0 ∧
      (∀ i (hi : i < (cloneEntries r ents).length), isConfChange (cloneEntries r ents)[i] = false →
        SpecR.enabled c0 (appendAllR val cf n ((cloneEntries r ents).take i) s)
          (actR val cf n (cloneEntries r ents)[i])) ∧
      (∀ i (hi : i < (cloneEntries r ents).length), isConfChange (cloneEntries r ents)[i] = true →
        ∃ cc cfg trk, ccDecode (cloneEntries r ents)[i] = .ok (some cc) ∧
          applyV2 (changerOf r) cc = .ok (cfg, trk) ∧
          ((appendAllR val cf n ((cloneEntries r ents).take i) s).nodes n).pendingConf ≤
            ((appendAllR val cf n ((cloneEntries r ents).take i) s).nodes n).applied ∧
          (((appendAllR val cf n ((cloneEntries r ents).take i) s).nodes n).active c0).allowed
            (absConfC cfg) = true ∧
          (cf (cloneEntries r ents)[i] = absConfC cfg →
            SpecR.enabled c0 (appendAllR val cf n ((cloneEntries r ents).take i) s)
              (actR val cf n (cloneEntries r ents)[i])) ∧
          ((appendAllR val cf n ((cloneEntries r ents).take (i + 1)) s).nodes n).pendingConf =
            (cloneEntries r ents)[i].index) := by
  obtain ⟨ents, pci, hg, hents, happ, hcomm, hpci, hterm, hvote, hstate, hcfg⟩ :=
    step_prop_entries fuel m r r' hm h0 hs hne hself hlt hwf hu h
  obtain ⟨hlen, p, hp0, hpl, htr⟩ := (C10.propose_cc_gate r hval m.entries ents pci).mp hg
  have htr' : GateTrace r m.entries ents p := htr
  have hlog : absLogR val cf r' = absLogR val cf r ++ (cloneEntries r ents).map (absEntR val cf) := by
    unfold absLogR absLogLR; rw [hents, List.map_append]
  have hcl := Conf10.cloneEntries_length r ents
  have hfull := prop_prefix_nodes val cf c0 ha hs hwf hu htr' hlen hp0 ents.length (Nat.le_refl _)
  rw [← hcl, List.take_length] at hfull
  obtain ⟨f1, f2, f3, f4, f5⟩ := hfull
  obtain ⟨b1, _, _, _⟩ := prop_base val cf ha hs hwf hu ents
  obtain ⟨a1, a2, a3, _, _, a6, _⟩ := appendAllR_nodes val cf n _ s b1
  have hA : AbsR val cf r' ((appendAllR val cf n (cloneEntries r ents) s).nodes n) := by
    refine ⟨a1.trans (ha.term.trans hterm.symm), a2.trans (ha.vote.trans hvote.symm),
      a3.trans (ha.commit.trans hcomm.symm), ?_, ?_, f2.trans happ.symm, fun _ => ?_⟩
    · rw [a6, ha.log, hlog]
    · rw [f1, hstate]; rfl
    · rw [f3, hcl, hlen, hpl, hpci]
  refine ⟨ents, pci, hg, hlog, hpci, hA, ?_, ?_, ?_⟩
  · rw [f4, ← hact]; unfold absConf; rw [hcfg]
  · intro i hi hc
    obtain ⟨g1, _⟩ := prop_prefix_nodes val cf c0 ha hs hwf hu htr' hlen hp0 i (by omega)
    unfold actR; rw [hc]
    exact g1
  · intro i hi hc
    have hi' : i < ents.length := by omega
    obtain ⟨g1, g2, g3, g4, _⟩ := prop_prefix_nodes val cf c0 ha hs hwf hu htr' hlen hp0 i (by omega)
    obtain ⟨_, _, k3, _⟩ := prop_prefix_nodes val cf c0 ha hs hwf hu htr' hlen hp0 (i + 1) (by omega)
    rw [cloneEntries_isCC r ents i hi hi'] at hc
    obtain ⟨cc, hd, q1, _, q3, q4⟩ := gateTrace_kept htr' hlen i hi' hc
    obtain ⟨cfg, trk, hch⟩ := (C10.checkConfChange_is_changer r cc).mp q3
    have hall := (RefineR.applyV2_allowed (changerOf r) cc cfg trk hstrong hch).1
    have hle : ((appendAllR val cf n ((cloneEntries r ents).take i) s).nodes n).pendingConf ≤
        ((appendAllR val cf n ((cloneEntries r ents).take i) s).nodes n).applied := by
      rw [g2, g3]; exact q1
    have hal : (((appendAllR val cf n ((cloneEntries r ents).take i) s).nodes n).active c0).allowed
        (absConfC cfg) = true := by rw [g4, ← hact]; exact hall
    refine ⟨cc, cfg, trk, by rw [cloneEntries_ccDecode r ents i hi hi']; exact hd, hch, hle, hal, ?_, ?_⟩
    · intro hann
      unfold actR; rw [cloneEntries_isCC r ents i hi hi', hc]
      exact ⟨g1, hle, by rw [hann]; exact hal⟩
    · rw [k3, q4, cloneEntries_getElem r ents i hi hi']; simp only; omega

/-! ### non-vacuity of (5): `C10.exLeader` (sole voter 1, log `[1]` applied) proposes `[normal, addNode 2, addNode 3, normal]` -/

theorem exLeader_strong : ConfInvStrong C10.exLeader.trk.cfg C10.exLeader.trk.progress := by
  refine ⟨(checkInvariants_iff _ _).mp (by rfl), ⟨by decide, by decide, by decide, by decide⟩, by decide, ?_, by decide⟩
  intro id
  simp only [C10.exLeader, keys, cfgMember, List.map_cons, List.map_nil, Option.getD_none, List.not_mem_nil, or_false]

def exProp : Message := { typ := .prop, entries := [C10.eN, C10.eCC C10.ccAdd2, C10.eCC C10.ccAdd3, C10.eN] }

example : C10.exLeader.log.WF ∧ Uncompacted C10.exLeader.log ∧ C10.exLeader.state = .leader ∧
  (C10.exLeader.trk.getProgress C10.exLeader.cfg.id).isNone = false ∧ C10.exLeader.leadTransferee = 0 ∧
  C10.exLeader.cfg.disableConfChangeValidation = false := by decide

theorem exProp_run : ((Raft.step 3 exProp).run C10.exLeader).toOption.map (fun p => (p.1, p.2.pendingConfIndex)) = some (none, 3) := by
  rw [Raft.step]; decide +kernel

/-- the conf-change entry of `exProp` as it is stamped (term 1, index 3) -/
def exStamped : Entry := { typ := some .confChangeV2, data := some C10.ccAdd2, term := 1, index := 3 }

theorem leaderAppendCfg_example (val : Val) (cf : Entry → SpecR.Conf) (hcf : cf exStamped = ([1, 2], [])) :
    ∃ r', (Raft.step 3 exProp).run C10.exLeader = .ok (none, r') ∧ r'.pendingConfIndex = 3 ∧
      absLogR val cf r' = absLogR val cf C10.exLeader ++
        [{ term := 1, val := val none (some [7]) },
         { term := 1, val := val (some .confChangeV2) (some C10.ccAdd2), cfg := some ([1, 2], []) },
         { term := 1, val := val (some .normal) none }, { term := 1, val := val none (some [7]) }] ∧
      SpecR.enabled ([1], [])
        (appendAllR val cf 1 [{ C10.eN with term := 1, index := 2 }]
          { SpecR.State.init with nodes := fun _ => absNodeR val cf C10.exLeader })
        (.leaderAppendCfg 1 (val (some .confChangeV2) (some C10.ccAdd2)) ([1, 2], [])) := by
  obtain ⟨⟨e, r'⟩, h, hv⟩ := Refinement.run_of_toOption exProp_run
  have he : e = none := (Prod.mk.inj hv).1
  subst he
  obtain ⟨ents, pci, hg, hlog, hpci, _, _, _, hcc⟩ := leaderAppendCfg_refines val cf ([1], []) 2 exProp C10.exLeader r'
    { SpecR.State.init with nodes := fun _ => absNodeR val cf C10.exLeader } 1
    (absR_absNodeR val cf C10.exLeader) rfl exLeader_strong rfl rfl rfl (by decide) (by decide) (by decide)
    (by decide) (by decide) (by decide) h
  have hg' : gate C10.exLeader C10.exLeader.pendingConfIndex exProp.entries.zipIdx =
      .ok ([C10.eN, C10.eCC C10.ccAdd2, { typ := some .normal }, C10.eN], 3) := by rfl
  rw [hg'] at hg
  injection hg with hg
  obtain ⟨he1, he2⟩ := Prod.mk.inj hg
  subst he1 he2
  refine ⟨r', h, hpci, ?_, ?_⟩
  · rw [hlog]
    have : (cloneEntries C10.exLeader [C10.eN, C10.eCC C10.ccAdd2, { typ := some .normal }, C10.eN]).map
        (absEntR val cf) =
        [{ term := 1, val := val none (some [7]) },
         { term := 1, val := val (some .confChangeV2) (some C10.ccAdd2), cfg := some (cf exStamped) },
         { term := 1, val := val (some .normal) none }, { term := 1, val := val none (some [7]) }] := rfl
    rw [this, hcf]
  · obtain ⟨cc, cfg, trk, hd, hch, _, _, hen, _⟩ := hcc 1 (by decide) rfl
    have hd' : ccDecode (cloneEntries C10.exLeader
        [C10.eN, C10.eCC C10.ccAdd2, { typ := some .normal }, C10.eN])[1] =
        .ok (some { changes := [{ typ := .addNode, nodeId := 2 }] }) := by rfl
    rw [hd'] at hd
    injection hd with hd; injection hd with hd
    subst hd
    have hch' : applyV2 (changerOf C10.exLeader) { changes := [{ typ := .addNode, nodeId := 2 }] } =
        .ok (okVal (applyV2 (changerOf C10.exLeader) { changes := [{ typ := .addNode, nodeId := 2 }] })) := rfl
    rw [hch'] at hch
    injection hch with hch
    have hc : absConfC cfg = ([1, 2], []) := by
      have : cfg = (okVal (applyV2 (changerOf C10.exLeader) { changes := [{ typ := .addNode, nodeId := 2 }] })).1 := by
        rw [hch]
      rw [this]; rfl
    have hfin := hen (by rw [hc]; exact hcf)
    have e2 : actR val cf 1 (cloneEntries C10.exLeader
        [C10.eN, C10.eCC C10.ccAdd2, { typ := some .normal }, C10.eN])[1] =
        .leaderAppendCfg 1 (val (some .confChangeV2) (some C10.ccAdd2)) (cf exStamped) := rfl
    rw [e2, hcf] at hfin
    exact hfin

/-!
## 7. Summary: which theorem discharges which SpecR action, and what remains for the environment

Hypotheses common to the step theorems: `RaftLog.WF`, `Uncompacted` (both decidable), `AbsR val cf r (s.nodes n)`;
where the configuration matters: `absConf r.trk = (s.nodes n).active c0` ("the tracker holds the active
configuration" — established by `newRaft`/restore, kept by every step below, re-established by (3b) at each
applied configuration entry) and `ConfInvStrong r.trk.cfg r.trk.progress` or just `voters ≠ []` (C13:
every reachable configuration).  `val`, `cf`, `c0` are arbitrary.

| SpecR action | model step | theorem | guard conjuncts **proved** | left to the **environment** / hypotheses |
|---|---|---|---|---|
| `campaign n` | MsgHup without PreVote | `campaign_refines_R` (+ `hasUnappliedConfChanges_is_hasCfgIn`) | `role ≠ leader`, **`hasCfgIn applied commit = false`** — and conversely: if it is `true` the model does nothing (`r' = r`) and the action is disabled | `n ≠ 0` (`r.cfg.id ≠ 0`, `Config.validate`); MsgTimeoutNow / election timer / PreVote: static part in `Refinement.timeoutNow_refines`, `tickElection_campaign_refines` — they go through the same `hup`, hence the same guard (`C10.hup_cases`), not restated here |
| `sendReqVote n` | the MsgVote queued by the same step | `campaign_refines_R` | whole guard (`role = candidate`); message content | when the `Ready` is taken |
| `becomeLeader n q` | winning MsgVoteResp | `becomeLeader_refines_R` | `role = candidate`, **`(active).isQuorum q`** (`q = grantedBy …`), effect incl. **`pendingConf := log.length`** = model `pendingConfIndex := lastIndex` (the same value) | `(term, n) ∈ dur.votes`, `reqVotesCovered`, `∀ v ∈ q, v = n ∨ vote term v n ∈ msgs`; hyp. `voters ≠ []`, tracker = active |
| `leaderAppend n v` | empty entry of `becomeLeader`; every non-conf-change (or neutralised) entry of a MsgProp | `becomeLeader_refines_R`, `leaderAppendCfg_refines` | whole guard (`role = leader`) | — |
| `leaderAppendCfg n v c` | a conf-change entry of a MsgProp that passes the propose-time gate | `leaderAppendCfg_refines` | `role = leader`, **`pendingConf ≤ applied`** (at that position of the batch), **`(active).allowed c`** for `c` = the Changer's result on the leader's tracker; effect incl. `pendingConf :=` index of the entry | the annotation: `cf e = absConfC cfg` (hypothesis of the last implication; `annotation_transfers`: every node in the same configuration computes the same `cfg`); hyp. validation enabled, own progress entry, no leadership transfer, `ConfInvStrong`, tracker = active.  A refused change is neutralised into a normal entry (`leaderAppend`) |
| `leaderCommit n c q` | accepted MsgAppResp at a leader | `leaderCommit_refines_R` | `role = leader`, `commit < c`, `termAt c = some term`, **`(active).isQuorum q`** (`q = ackedBy r' c`); configuration and `pendingConfIndex` unchanged | `∀ v ∈ q`: the ack of `v` for `c` is in the soup (or, for `n`, durable); hyp. `voters ≠ []`, tracker = active |
| `applyTo n k` | `RawNode`: `appliedTo` + the application calling `ApplyConfChange` | effect on the configuration: `applyConfChange_absConf`, `applyConfChange_refines_applyTo`, `active_applyTo_succ` (one entry at a time: `k = applied + 1`; entries without annotation leave `active` alone) ; the Changer side: `simple_allowed`, `enterJoint_allowed`, `leaveJoint_allowed`, `applyV2_allowed`, `changer_keeps_voter`, `allowed_refl` | new tracker configuration `= active` after the step and is an `allowed` successor of the old one | guard `applied < k ≤ commit`: `RawNode` layer (`appliedTo` panics beyond `committed`, C08); that the application applies the entries in order, one `ApplyConfChange` per configuration entry; the annotation hypothesis `hann` |
| quorum predicate | — | `absConf_isQuorum`, `absConf_isQuorum_majorities`, `absConf_isQuorum_jointCfg` | `isQuorum` on `absConf` ⇔ `jointVote = won` ∧ `voters ≠ []` | — |
| `updateTerm`, `grant`, `handleApp`, `handleHb`, `ackCommit`, `sendApp`, `sendHb`, `stepDown` | as in `Props/Refinement.lean` | not restated: their SpecR guards and effects are those of `Spec/Raft.lean` (no configuration, `applied`, `pendingConf` in their guards or effects) — `Refinement.*` applies after erasing `cfg` (`absLogR_erase`); that these model steps leave `log.applied`, `trk.cfg`, `pendingConfIndex` alone is not proved here | | |
| `crash n k` | restart (`newRaft`) | — (environment); note `pendingConf := 0` there and `AbsR.pendingConf` only speaks about leaders | | |
| `sendSnap`, `handleSnap` | MsgSnap / `restore` | not covered (as in the static refinement: `Uncompacted` fails after an install) | | |

**Exact relation Changer ↔ `Conf.allowed`** (item 2): `simple` ↦ first disjunct (both non-joint, symmetric
difference ≤ 1 — learner-only changes are the stuttering case `allowed c c`, `allowed_refl`); `enterJoint` ↦
second disjunct (`c'.2 = c.1`, autoLeave irrelevant); `leaveJoint` ↦ third (`c'.1 = c.1`, `c'.2 = []`);
in all three `c'.1 ≠ []` ("removed all voters" is refused) and `c'.1.Nodup`.  `allowed` holds for **every**
accepted change of a configuration satisfying `ConfInvStrong`; a simple change in a joint configuration is
refused by the model (`C13.simple_nonjoint`).

**Statements that turned out false / needed a hypothesis**:
* `isQuorum` ⇔ `jointVote = won` fails for an *empty* incoming voter set (`jointVote [] [] _ = won`,
  `isQuorum ([], []) _ = false`): the corrected statement carries `voters ≠ []` (first `example` of §1).
* `allowed` fails for an accepted simple change on a *non-canonical* voter list (`allowed_needs_canonical`):
  `ConfInvStrong` (strictly ascending lists) is a real hypothesis of (2); every configuration the model
  builds satisfies it (C13).
* `AbsR.pendingConf` cannot be unconditional: `reset` zeroes `pendingConfIndex` at `campaign`/`updateTerm`
  while SpecR keeps `pendingConf`; it is stated for leaders only (where the SpecR guard reads it).
-/

end RaftVerif.RefinementR
