import RaftVerif.Proofs.SimCorApplyTime
import RaftVerif.Props.SimulationCorollaries
/-!
# Props/SimulationApply — C01 as the application sees it, and C02 election by stored votes

Property theorems only (machinery: `Proofs/SimCorApply*.lean`).  Setting and restrictions: those of
`Props/SimulationCorollaries.lean` (clusters of unchanged model `RawNode`s reachable from an initial cluster by
`Simulation.EnvStep`; static membership, sync storage writes, no snapshots, …).

What the application is handed is `rd.committedEntries` of the `Ready` of a round
`Sim.syncRound rn draws = .ok (rd, rn')` (`Ready`; persist; `Advance` — the `EnvStep.sync` step).  `RawNode.ready`
computes the `Ready` from the state *before* `acceptReady`, so the bounds below are about `rn`, the node before the
round: the commit index that bounds the handed-out entries is `rn.raft.log.committed`.

`SimCorP.Reaches c c'` is the reflexive-transitive closure of `EnvStep` (zero or more environment steps from `c`).
-/
namespace RaftVerif.SimCor
open Sim Refine Simulation SimCorP

/-- **what a round hands out is committed log**: every entry handed to the application by a round of a live node
`rn` of a reachable cluster has an index in `(rn.applying, rn.committed]` (cursor and commit index *before* the
round) and is the entry of `rn`'s log at that index -/
theorem sync_hands_out_committed_log {voters : List Id} {c0 c : Cluster} (hsorted : voters.Pairwise (· < ·))
    (h0 : 0 ∉ voters) (hne : voters ≠ []) (hc : InitCluster voters c0) (h : CReachable c0 c)
    {n : Nat} {rn rn' : RawNode} (hn : c.nodes n = some rn) {rd : Ready} {draws : List Nat}
    (hr : syncRound rn draws = .ok (rd, rn')) {e : Entry} (he : e ∈ rd.committedEntries) :
    1 ≤ e.index ∧ rn.raft.log.applying < e.index ∧ e.index ≤ rn.raft.log.committed ∧
      rn.raft.log.abs.ents[e.index - 1]? = some e :=
  handed_out_views ⟨hsorted, h0, hne, hc, h⟩ hn hr he

/-- the hand-out of a round is a run of consecutive indexes starting right after the `applying` cursor of the node
before the round (no gaps, no repetitions within one hand-out) -/
theorem sync_hands_out_contiguous {voters : List Id} {c0 c : Cluster} (hsorted : voters.Pairwise (· < ·))
    (h0 : 0 ∉ voters) (hne : voters ≠ []) (hc : InitCluster voters c0) (h : CReachable c0 c)
    {n : Nat} {rn rn' : RawNode} (hn : c.nodes n = some rn) {rd : Ready} {draws : List Nat}
    (hr : syncRound rn draws = .ok (rd, rn')) (k : Nat) (hk : k < rd.committedEntries.length) :
    rd.committedEntries[k].index = rn.raft.log.applying + 1 + k :=
  handed_out_contig ⟨hsorted, h0, hne, hc, h⟩ hn hr k hk

/-- **C01, as the application sees it (one cluster)**: whatever two live nodes of a reachable cluster would be handed
by their next rounds, entries with the same index have the same term, type and payload -/
theorem cluster_applied_entries_agree {voters : List Id} {c0 c : Cluster} (hsorted : voters.Pairwise (· < ·))
    (h0 : 0 ∉ voters) (hne : voters ≠ []) (hc : InitCluster voters c0) (h : CReachable c0 c)
    {a b : Nat} {ra ra' rb rb' : RawNode} (ha : c.nodes a = some ra) (hb : c.nodes b = some rb)
    {rda rdb : Ready} {da db : List Nat} (hra : syncRound ra da = .ok (rda, ra'))
    (hrb : syncRound rb db = .ok (rdb, rb')) {e e' : Entry} (he : e ∈ rda.committedEntries)
    (he' : e' ∈ rdb.committedEntries) (hi : e.index = e'.index) :
    e.term = e'.term ∧ e.typ = e'.typ ∧ e.data = e'.data := by
  obtain ⟨a1, _, a3, a4⟩ := handed_out_views ⟨hsorted, h0, hne, hc, h⟩ ha hra he
  obtain ⟨_, _, b3, b4⟩ := handed_out_views ⟨hsorted, h0, hne, hc, h⟩ hb hrb he'
  rw [← hi] at b3 b4
  exact cluster_state_machine_safety hsorted h0 hne hc h ha hb a1 a3 b3 a4 b4

/-- **C01 across time, for the logs**: what a live node `a` of a reachable cluster `c` holds at an index `i` it has
committed is what any live node `b` of any later cluster `c'` holds at `i` once it has committed `i` — whatever
happened in between (crashes and restarts of `a`, `b` or anybody else included; `a = b` allowed) -/
theorem cluster_state_machine_safety_later {voters : List Id} {c0 c c' : Cluster} (hsorted : voters.Pairwise (· < ·))
    (h0 : 0 ∉ voters) (hne : voters ≠ []) (hc : InitCluster voters c0) (h : CReachable c0 c) (hr : Reaches c c')
    {a b : Nat} {ra rb : RawNode} (ha : c.nodes a = some ra) (hb : c'.nodes b = some rb) {i : Nat} (hi : 1 ≤ i)
    (h1 : i ≤ ra.raft.log.committed) (h2 : i ≤ rb.raft.log.committed) :
    ∃ x y, ra.raft.log.abs.ents[i - 1]? = some x ∧ rb.raft.log.abs.ents[i - 1]? = some y ∧
      x.term = y.term ∧ x.typ = y.typ ∧ x.data = y.data ∧ x.index = i ∧ y.index = i :=
  commit_agree_views_time ⟨hsorted, h0, hne, hc, h⟩ hr ha hb false false hi h1 h2

/-- **C01 across time, against what a node would re-apply after a crash**: the same with the *storage* of `b` in the
later cluster, up to its *stored* commit index -/
theorem cluster_state_machine_safety_later_stored {voters : List Id} {c0 c c' : Cluster}
    (hsorted : voters.Pairwise (· < ·))
    (h0 : 0 ∉ voters) (hne : voters ≠ []) (hc : InitCluster voters c0) (h : CReachable c0 c) (hr : Reaches c c')
    {a b : Nat} {ra rb : RawNode} (ha : c.nodes a = some ra) (hb : c'.nodes b = some rb) {i : Nat} (hi : 1 ≤ i)
    (h1 : i ≤ ra.raft.log.committed) (h2 : i ≤ (rb.raft.log.storage.hardState.getD {}).commit) :
    ∃ x y, ra.raft.log.abs.ents[i - 1]? = some x ∧ rb.raft.log.storage.abs.ents[i - 1]? = some y ∧
      x.term = y.term ∧ x.typ = y.typ ∧ x.data = y.data ∧ x.index = i ∧ y.index = i :=
  commit_agree_views_time ⟨hsorted, h0, hne, hc, h⟩ hr ha hb false true hi h1 h2

/-- **C01, as the application sees it (across time)**: if node `a` is handed `e` by a round in a reachable cluster `c`
and node `b` is handed `e'` with the same index by a round in a cluster `c'` reached from `c` by any number of
environment steps (`a = b` allowed: a node that crashed, restarted with `applied = 0` and replays its log is handed
the same entries again), then `e` and `e'` have the same term, type and payload -/
theorem cluster_applied_entries_agree_later {voters : List Id} {c0 c c' : Cluster}
    (hsorted : voters.Pairwise (· < ·))
    (h0 : 0 ∉ voters) (hne : voters ≠ []) (hc : InitCluster voters c0) (h : CReachable c0 c) (hr : Reaches c c')
    {a b : Nat} {ra ra' rb rb' : RawNode} (ha : c.nodes a = some ra) (hb : c'.nodes b = some rb)
    {rda rdb : Ready} {da db : List Nat} (hra : syncRound ra da = .ok (rda, ra'))
    (hrb : syncRound rb db = .ok (rdb, rb')) {e e' : Entry} (he : e ∈ rda.committedEntries)
    (he' : e' ∈ rdb.committedEntries) (hi : e.index = e'.index) :
    e.term = e'.term ∧ e.typ = e'.typ ∧ e.data = e'.data := by
  have S : Setting voters c0 c := ⟨hsorted, h0, hne, hc, h⟩
  have S' : Setting voters c0 c' := ⟨hsorted, h0, hne, hc, hr.creachable h⟩
  obtain ⟨a1, _, a3, a4⟩ := handed_out_views S ha hra he
  obtain ⟨_, _, b3, b4⟩ := handed_out_views S' hb hrb he'
  rw [← hi] at b3 b4
  obtain ⟨x, y, hx, hy, k1, k2, k3, _, _⟩ := commit_agree_views_time S hr ha hb false false a1 a3 b3
  have ex : x = e := Option.some.inj (hx.symm.trans a4)
  have ey : y = e' := Option.some.inj (hy.symm.trans b4)
  subst ex; subst ey
  exact ⟨k1, k2, k3⟩

/-- **C02 election by stored votes**: for a live leader `l` (of term `rl.raft.term`) of a reachable cluster there is
a strict majority `q` of the voters such that the *stored* hard state of every present member of `q` is at a higher
term, or is at the leader's term with the vote for `l` -/
theorem cluster_leader_elected_by_stored_votes {voters : List Id} {c0 c : Cluster}
    (hsorted : voters.Pairwise (· < ·))
    (h0 : 0 ∉ voters) (hne : voters ≠ []) (hc : InitCluster voters c0) (h : CReachable c0 c)
    {l : Nat} {rl : RawNode} (hl : c.nodes l = some rl) (hlead : rl.raft.state = .leader) :
    ∃ q : List Nat, q.Sublist voters ∧ voters.length < 2 * q.length ∧
      ∀ v ∈ q, ∀ rv, c.nodes v = some rv →
        (rv.raft.log.storage.hardState.getD {}).term > rl.raft.term ∨
          ((rv.raft.log.storage.hardState.getD {}).term = rl.raft.term ∧
            (rv.raft.log.storage.hardState.getD {}).vote = l) :=
  leader_stored_votes ⟨hsorted, h0, hne, hc, h⟩ hl hlead

/-- **C02 with all voters present**: if every voter is a node of the initial cluster, every member of the majority is
present -/
theorem cluster_leader_elected_by_stored_votes_full {voters : List Id} {c0 c : Cluster}
    (hsorted : voters.Pairwise (· < ·))
    (h0 : 0 ∉ voters) (hne : voters ≠ []) (hc : InitCluster voters c0) (h : CReachable c0 c)
    (hfull : ∀ v ∈ voters, (c0.nodes v).isSome = true)
    {l : Nat} {rl : RawNode} (hl : c.nodes l = some rl) (hlead : rl.raft.state = .leader) :
    ∃ q : List Nat, q.Sublist voters ∧ voters.length < 2 * q.length ∧
      ∀ v ∈ q, ∃ rv, c.nodes v = some rv ∧
        ((rv.raft.log.storage.hardState.getD {}).term > rl.raft.term ∨
          ((rv.raft.log.storage.hardState.getD {}).term = rl.raft.term ∧
            (rv.raft.log.storage.hardState.getD {}).vote = l)) := by
  obtain ⟨q, hq, hmaj, hall⟩ := cluster_leader_elected_by_stored_votes hsorted h0 hne hc h hl hlead
  refine ⟨q, hq, hmaj, fun v hv => ?_⟩
  have hp := nodes_persist hsorted h0 hne hc h v
  rw [hfull v (hq.subset hv)] at hp
  obtain ⟨rv, hrv⟩ := Option.isSome_iff_exists.mp hp
  exact ⟨rv, hrv, hall v hv rv hrv⟩

end RaftVerif.SimCor
