import RaftVerif.Proofs.NextVotes
/-!
# Props/C17Quorum — with PreVote the term is raised only with a pre-vote quorum for that term (C17)

Property theorems about `Raft.step` of the model (`Model/Raft.lean`), for **every** state and message of
the stated shape.  Machinery: `Proofs/NextTerm.lean` (relation `TE`: term kept), `Proofs/NextStep.lean`
(`step_sites`), `Proofs/NextVotes.lean` (relation `VS`: vote map kept-with-term or cleared, `step_votes`,
`campaign_preElection_detail`, `reject_cannot_win`).

## Finding (the statement as first written is false of the model, and of raft.go)

"the term is raised by a pre-candidate only on a **granting** MsgPreVoteResp with `m.term = r.term + 1`"
does not hold for every state: `stepCandidate` tallies after *every* response of its kind, so a
pre-candidate whose recorded votes already are a quorum (not reachable by steps alone, but reachable
through a configuration change that shrinks the voter set while the pre-election is pending) campaigns
on the next response even if that response is a *rejection* — `reject_can_trigger_example` below.
What does hold for every state, and is what C17 needs: the tally *after recording* the response is
`won` (`term_raise_sites`), every recorded grant was issued for `term + 1` (`prevote_votes_justified`),
and if the tally was not already `won` the triggering response is a grant for `term + 1`
(`term_raise_needs_grant`).
-/
namespace RaftVerif.C17Q
open Raft Next

/-- a successful run never comes from `step 0` -/
theorem fuel_pos {m : Message} {r r' : Raft} {e : Option StepErr}
    (h : (Raft.step 0 m).run r = .ok (e, r')) : False := by
  rw [Raft.step] at h
  simp [StateT.run, throw, throwThe, MonadExceptOf.throw, StateT.lift, bind, Except.bind] at h

/-! ### (a) the sites at which the term is raised -/

/-- **C17 (a)** PreVote enabled, any role, any message other than MsgTimeoutNow (the leader's order to
take over): if `Step` succeeds with a higher term then
* either the term was learned from the message (`m.term > r.term`, `r'.term = m.term`),
* or the node is a **pre-candidate**, the message is a **MsgPreVoteResp** — a granting one only if
  issued for `r.term + 1` —, after recording `m.from ↦ ¬m.reject` the joint tally (`tallyVotes`, i.e.
  `JointConfig.VoteResult` over `trk.votes`) of the node's configuration is **`won`**, and the node
  becomes candidate of exactly `r.term + 1`, voting for itself. -/
theorem term_raise_sites (fuel : Nat) (m : Message) (r r' : Raft) (e : Option StepErr)
    (hpv : r.cfg.preVote = true) (hm : m.typ ≠ .timeoutNow)
    (h : (Raft.step fuel m).run r = .ok (e, r')) (hgt : r.term < r'.term) :
    (r.term < m.term ∧ r'.term = m.term) ∨
    (r.state = .preCandidate ∧ m.typ = .preVoteResp ∧ (m.reject = false → m.term = r.term + 1) ∧
      (r.trk.recordVote m.from (!m.reject)).tallyVotes.2.2 = .won ∧
      r'.term = r.term + 1 ∧ r'.state = .candidate ∧ r'.vote = r.cfg.id) := by
  rcases (step_sites fuel m r hpv hm).elim h with h1 | h1 | h1
  · omega
  · exact Or.inl ⟨by omega, h1⟩
  · exact Or.inr h1

/-- **C17 (a′)** if moreover the recorded votes were not already a quorum (true of every pre-candidate
reached by steps: it leaves the role the moment the tally is `won`), the triggering response is a
**grant issued for `r.term + 1`** -/
theorem term_raise_needs_grant (fuel : Nat) (m : Message) (r r' : Raft) (e : Option StepErr)
    (hpv : r.cfg.preVote = true) (hm : m.typ ≠ .timeoutNow) (hnw : r.trk.tallyVotes.2.2 ≠ .won)
    (h : (Raft.step fuel m).run r = .ok (e, r')) (hgt : r.term < r'.term) (hown : ¬ r.term < m.term) :
    r.state = .preCandidate ∧ m.typ = .preVoteResp ∧ m.reject = false ∧ m.term = r.term + 1 ∧
      (r.trk.recordVote m.from true).tallyVotes.2.2 = .won ∧
      r'.term = r.term + 1 ∧ r'.state = .candidate := by
  rcases term_raise_sites fuel m r r' e hpv hm h hgt with h1 | ⟨h1, h2, h3, h4, h5, h6, _⟩
  · exact absurd h1.1 hown
  · cases hrej : m.reject with
    | true =>
      rw [hrej] at h4
      exact absurd (reject_cannot_win r.trk m.from h4) hnw
    | false =>
      rw [hrej] at h4
      exact ⟨h1, h2, rfl, h3 hrej, h4, h5, h6⟩

/-- what a `won` tally means (C12): in **each** voter set of the configuration a strict majority of the
members has a recorded grant -/
theorem won_tally_majorities (t : Tracker) (h : t.tallyVotes.2.2 = .won) :
    (t.cfg.voters = [] ∨ t.cfg.voters.length < 2 * Quorum.yesCount t.cfg.voters (mapGet t.votes)) ∧
    (t.outgoingL = [] ∨ t.outgoingL.length < 2 * Quorum.yesCount t.outgoingL (mapGet t.votes)) := by
  unfold Tracker.tallyVotes at h
  simp only at h
  obtain ⟨h0, h1⟩ := (Quorum.joint_vote_spec _ _ _).1.1 h
  exact ⟨(Quorum.majority_vote_spec _ _).1.1 h0, (Quorum.majority_vote_spec _ _).1.1 h1⟩

/-- **C17 (a″)** the local MsgHup (election timeout or `Campaign()`) at a node with PreVote never raises
the term: either nothing happens (leader, not promotable, unapplied conf change) or the node becomes
**pre-candidate** of the *same* term with the same vote, an empty vote map, and queues only pre-vote
requests for `term + 1` plus its own granting MsgPreVoteResp for `term + 1` (in `msgsAfterAppend`).
A node becomes *candidate* directly only through `hup(campaignTransfer)` (MsgTimeoutNow, see
`timeoutNow_raises_example`) or, without PreVote, `hup(campaignElection)`. -/
theorem hup_prevote_keeps_term (fuel : Nat) (m : Message) (r r' : Raft) (e : Option StepErr)
    (hpv : r.cfg.preVote = true) (ht : m.typ = .hup) (h0 : m.term = 0)
    (h : (Raft.step (fuel + 1) m).run r = .ok (e, r')) :
    r' = r ∨
    (r.state ≠ .leader ∧ r'.state = .preCandidate ∧ r'.term = r.term ∧ r'.vote = r.vote ∧ r'.lead = 0 ∧
      r'.log = r.log ∧ r'.trk.votes = [] ∧
      (∃ added, r'.msgsAfterAppend = r.msgsAfterAppend ++ added ∧ ∀ x ∈ added,
        x.typ = .preVoteResp ∧ x.from = r.cfg.id ∧ x.to = r.cfg.id ∧ x.term = r.term + 1 ∧ x.reject = false) ∧
      (∃ added, r'.msgs = r.msgs ++ added ∧ ∀ x ∈ added,
        x.typ = .preVote ∧ x.from = r.cfg.id ∧ x.term = r.term + 1 ∧ x.reject = false)) := by
  rw [Live.step_hup_run fuel m r ht h0, hpv, if_pos rfl] at h
  obtain ⟨p, hc, h'⟩ := bind_eq_ok.1 h
  injection h' with h'; injection h' with _ e2; subst e2
  obtain ⟨u, s1⟩ := p
  rcases (hup_preElection_spec r).elim hc with h1 | ⟨hnl, hp⟩
  · exact Or.inl h1
  · have hf := hp.frame
    exact Or.inr ⟨hnl, hf.state, hf.term, hf.vote, hf.lead, hf.log, hf.trkVotes, hp.maa, hp.msgs⟩

/-! ### (b) every recorded grant of a pre-candidate is a pre-vote for `term + 1` -/

/-- **C17 (b)** one-step form of the invariant "every `true` in a pre-candidate's vote map comes from a
non-rejecting MsgPreVoteResp with term `term + 1` stepped since it became pre-candidate": stepping any
message at a pre-candidate that is a pre-candidate afterwards, every grant recorded afterwards
* was recorded before, the term being the same, or
* is the grant carried by `m` itself: `m` is a MsgPreVoteResp, not a rejection, **for `r.term + 1`**,
  from a node with no recorded vote yet.
(Together with `hup_prevote_keeps_term` — the map is empty when the node becomes pre-candidate, its own
vote arrives as a MsgPreVoteResp for `term + 1` like any other — this is the invariant.) -/
theorem prevote_votes_justified (fuel : Nat) (m : Message) (r r' : Raft) (e : Option StepErr)
    (hs : r.state = .preCandidate) (h : (Raft.step fuel m).run r = .ok (e, r')) (id : Id)
    (hv : mapGet r'.trk.votes id = some true) :
    r'.term = r.term ∧
    (mapGet r.trk.votes id = some true ∨
     (id = m.from ∧ m.typ = .preVoteResp ∧ m.reject = false ∧ m.term = r.term + 1 ∧
        mapGet r.trk.votes id = none)) := by
  have hnil : ∀ {P : Prop}, r'.trk.votes = [] → P := by
    intro P h0; rw [h0] at hv; cases hv
  rcases (step_votes fuel m r).elim h with h1 | ⟨_, htyp, hterm, h1⟩
  · rcases h1 with ⟨h1, h2⟩ | h1
    · rw [h1] at hv; exact ⟨h2, Or.inl hv⟩
    · exact hnil h1
  · rcases h1 with ⟨h1, h2⟩ | h1
    · refine ⟨h2, ?_⟩
      rw [h1] at hv
      simp only [afterVote] at hv
      rw [recordVote_get] at hv
      split at hv
      · rename_i hc
        injection hv with hv
        have hrej : m.reject = false := by simpa using hv
        refine Or.inr ⟨hc.1, ?_, hrej, hterm hs hrej, hc.1 ▸ hc.2⟩
        simpa [myVoteRespType, hs] using htyp
      · exact Or.inl hv
    · exact hnil h1

/-- **C17 (b′)** in any role: a `Step` changes the vote map only by clearing it, or — at a candidate or
pre-candidate, on a response of its own kind — by recording `m.from ↦ ¬m.reject` if `m.from` had no
recorded vote (then the term is unchanged) -/
theorem votes_written_only_by_responses (fuel : Nat) (m : Message) (r r' : Raft) (e : Option StepErr)
    (h : (Raft.step fuel m).run r = .ok (e, r')) :
    r'.trk.votes = [] ∨ (r'.trk.votes = r.trk.votes ∧ r'.term = r.term) ∨
    ((r.state = .candidate ∨ r.state = .preCandidate) ∧
      m.typ = (if r.state = .preCandidate then .preVoteResp else .voteResp) ∧
      (r.state = .preCandidate → m.reject = false → m.term = r.term + 1) ∧
      r'.trk.votes = (r.trk.recordVote m.from (!m.reject)).votes ∧ r'.term = r.term) := by
  rcases (step_votes fuel m r).elim h with h1 | ⟨hc, htyp, hterm, h1⟩
  · rcases h1 with h1 | h1
    · exact Or.inr (Or.inl h1)
    · exact Or.inl h1
  · rcases h1 with h1 | h1
    · exact Or.inr (Or.inr ⟨hc, htyp, hterm, h1.1, h1.2⟩)
    · exact Or.inl h1

/-! ### (c) regression for the repaired defect, non-vacuity, counterexamples -/

/-- a pre-candidate of term 5 in the group {1, 2, 3}; its own pre-vote is recorded -/
def exPre : Raft :=
  { cfg := { id := 1, preVote := true }, term := 5, state := .preCandidate, log := RaftLog.new {} 1000,
    draws := [3],
    trk := { cfg := { voters := [1, 2, 3] }, votes := [(1, true)], maxInflight := 16,
             progress := [(1, { match_ := 0, next := 1 }), (2, { match_ := 0, next := 1 }),
                          (3, { match_ := 0, next := 1 })] } }

/-- **C17 (c)** `single_prevote_grant_insufficient` (the repaired defect): a *stale* granting
MsgPreVoteResp — issued for the node's current term 5, not for 6 — is ignored: term, role, vote map and
both queues are what they were (before the repair it was counted, giving 2 of 3 and a term raise) -/
theorem single_prevote_grant_insufficient :
    ((Raft.step 3 { typ := .preVoteResp, «from» := 2, to := 1, term := 5 }).run exPre).toOption.map
      (fun p => p.2.term == 5 && p.2.state == .preCandidate && p.2.trk.votes == [(1, true)] &&
        p.2.msgs.length == 0 && p.2.msgsAfterAppend.length == 0 && p.2.draws == [3]) = some true := by
  rw [Raft.step, Raft.stepCandidate]; decide +kernel

/-- non-vacuity of `term_raise_sites`: the same grant issued for term 6 completes the quorum: the node
becomes candidate of term 6, votes for itself and asks 2 and 3 for their votes -/
theorem prevote_quorum_raises_example :
    ((Raft.step 3 { typ := .preVoteResp, «from» := 2, to := 1, term := 6 }).run exPre).toOption.map
      (fun p => p.2.term == 6 && p.2.state == .candidate && p.2.vote == 1 &&
        p.2.msgs.map (fun x => (x.typ, x.to, x.term)) == [(.vote, 2, 6), (.vote, 3, 6)]) = some true := by
  rw [Raft.step, Raft.stepCandidate]; decide +kernel

example : exPre.cfg.preVote = true ∧ exPre.trk.tallyVotes.2.2 ≠ .won ∧
    (exPre.trk.recordVote 2 true).tallyVotes.2.2 = .won := by decide

/-- a rejection is recorded and leaves the pre-candidate pending (non-vacuity of `prevote_votes_justified`) -/
example :
    ((Raft.step 3 { typ := .preVoteResp, «from» := 2, to := 1, term := 5, reject := true }).run exPre).toOption.map
      (fun p => (p.2.term, p.2.state, p.2.trk.votes)) = some (5, .preCandidate, [(1, true), (2, false)]) := by
  rw [Raft.step, Raft.stepCandidate]; decide +kernel

/-- **counterexample to the unconditional form** (see the header): a pre-candidate whose recorded grants
already are a quorum campaigns on a *rejection* -/
theorem reject_can_trigger_example :
    ((Raft.step 3 { typ := .preVoteResp, «from» := 3, to := 1, term := 5, reject := true }).run
      { exPre with trk := { exPre.trk with votes := [(1, true), (2, true)] } }).toOption.map
      (fun p => (p.2.term, p.2.state, p.2.trk.votes)) = some (6, .candidate, []) := by
  rw [Raft.step, Raft.stepCandidate]; decide +kernel

/-- a follower of leader 2 (PreVote on) -/
def exFol : Raft :=
  { cfg := { id := 1, preVote := true }, term := 5, lead := 2, log := RaftLog.new {} 1000, draws := [3],
    trk := { cfg := { voters := [1, 2, 3] }, maxInflight := 16,
             progress := [(1, { match_ := 0, next := 1 }), (2, { match_ := 0, next := 1 }),
                          (3, { match_ := 0, next := 1 })] } }

/-- **why MsgTimeoutNow is excluded**: the leader's order to take over makes the follower a candidate of
the next term at once, PreVote or not (`hup(campaignTransfer)`) -/
theorem timeoutNow_raises_example :
    ((Raft.step 3 { typ := .timeoutNow, «from» := 2, to := 1, term := 5 }).run exFol).toOption.map
      (fun p => (p.2.term, p.2.state, p.2.vote)) = some (6, .candidate, 1) := by
  rw [Raft.step, Raft.stepFollower]; decide +kernel

/-- non-vacuity of `hup_prevote_keeps_term`: the election timeout makes it pre-candidate of the same term -/
example :
    ((Raft.step 3 { typ := .hup, «from» := 1 }).run exFol).toOption.map
      (fun p => p.2.term == 5 && p.2.state == .preCandidate && p.2.vote == 0 && p.2.trk.votes == [] &&
        p.2.msgsAfterAppend.map (fun x => (x.typ, x.to, x.term, x.reject)) == [(.preVoteResp, 1, 6, false)] &&
        p.2.msgs.map (fun x => (x.typ, x.to, x.term)) == [(.preVote, 2, 6), (.preVote, 3, 6)]) = some true := by
  rw [Raft.step]; decide +kernel

end RaftVerif.C17Q
