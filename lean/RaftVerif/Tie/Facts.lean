import RaftVerif.Gen.Facts
import RaftVerif.Model.Raft
/-!
# Tie/Facts — the model's tables equal the tables regenerated from /repo's source

`RaftVerif/Gen/Facts.lean` is rewritten on every run by `harness/cmd/facts` (go/ast + go/types over
/repo's current non-test source). These theorems re-check that the enumerations and the
`isLocalMsg` / `isResponseMsg` tables the Lean model uses are the ones the Go code declares. A change
of a numeric value, a new message type or a changed table makes this module fail to compile.
Not imported by the library root: built by the checks that use it (`lake build RaftVerif.Tie.Facts`).
-/
namespace RaftVerif.Tie

def allMsgTypes : List MsgType :=
  [.hup, .beat, .prop, .app, .appResp, .vote, .voteResp, .snap, .heartbeat, .heartbeatResp, .unreachable,
   .snapStatus, .checkQuorum, .transferLeader, .timeoutNow, .readIndex, .readIndexResp, .preVote, .preVoteResp,
   .storageAppend, .storageAppendResp, .storageApply, .storageApplyResp, .forgetLeader]

def goName : MsgType → String
  | .hup => "MsgHup" | .beat => "MsgBeat" | .prop => "MsgProp" | .app => "MsgApp" | .appResp => "MsgAppResp"
  | .vote => "MsgVote" | .voteResp => "MsgVoteResp" | .snap => "MsgSnap" | .heartbeat => "MsgHeartbeat"
  | .heartbeatResp => "MsgHeartbeatResp" | .unreachable => "MsgUnreachable" | .snapStatus => "MsgSnapStatus"
  | .checkQuorum => "MsgCheckQuorum" | .transferLeader => "MsgTransferLeader" | .timeoutNow => "MsgTimeoutNow"
  | .readIndex => "MsgReadIndex" | .readIndexResp => "MsgReadIndexResp" | .preVote => "MsgPreVote"
  | .preVoteResp => "MsgPreVoteResp" | .storageAppend => "MsgStorageAppend"
  | .storageAppendResp => "MsgStorageAppendResp" | .storageApply => "MsgStorageApply"
  | .storageApplyResp => "MsgStorageApplyResp" | .forgetLeader => "MsgForgetLeader"

/-- the 24 message types with their numeric values -/
theorem messageTypes_tie : Gen.messageTypes = allMsgTypes.map (fun t => (goName t, t.toNat)) := by decide

/-- `MsgType.ofNat?` is the inverse of the declared numbering -/
theorem messageTypes_ofNat : ∀ t ∈ allMsgTypes, MsgType.ofNat? t.toNat = some t := by decide

/-- util.go `isLocalMsg` -/
theorem isLocalMsg_tie : ∀ t ∈ allMsgTypes, t.isLocal = Gen.isLocalMsg.contains (goName t) := by decide

/-- util.go `isResponseMsg` -/
theorem isResponseMsg_tie : ∀ t ∈ allMsgTypes, t.isResponse = Gen.isResponseMsg.contains (goName t) := by decide

theorem entryTypes_tie :
    Gen.entryTypes = [("EntryNormal", EntryType.normal.toNat), ("EntryConfChange", EntryType.confChange.toNat),
                      ("EntryConfChangeV2", EntryType.confChangeV2.toNat)] := by decide

theorem confChangeTypes_tie :
    Gen.confChangeTypes = [("ConfChangeAddNode", ConfChangeType.addNode.toNat), ("ConfChangeRemoveNode", ConfChangeType.removeNode.toNat),
                           ("ConfChangeUpdateNode", ConfChangeType.updateNode.toNat),
                           ("ConfChangeAddLearnerNode", ConfChangeType.addLearnerNode.toNat)] := by decide

theorem confChangeTransitions_tie :
    Gen.confChangeTransitions = [("ConfChangeTransitionAuto", ConfChangeTransition.auto.toNat),
                                 ("ConfChangeTransitionJointImplicit", ConfChangeTransition.jointImplicit.toNat),
                                 ("ConfChangeTransitionJointExplicit", ConfChangeTransition.jointExplicit.toNat)] := by decide

theorem stateTypes_tie :
    Gen.stateTypes = [("StateFollower", Role.follower.toNat), ("StateCandidate", Role.candidate.toNat),
                      ("StateLeader", Role.leader.toNat), ("StatePreCandidate", Role.preCandidate.toNat)] := by decide

theorem progressStates_tie :
    Gen.progressStates = [("StateProbe", ProgressState.probe.toNat), ("StateReplicate", ProgressState.replicate.toNat),
                          ("StateSnapshot", ProgressState.snapshot.toNat)] := by decide

end RaftVerif.Tie
