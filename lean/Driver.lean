import RaftVerif.Model.Quorum
import RaftVerif.Model.Parse
open RaftVerif RaftVerif.Parse

def fmtIdx : Option Nat → String
  | none => "inf"
  | some n => toString n

/-- `q <c0> <c1> <acks> <votes>` -/
def cmdQuorum (args : List String) : String :=
  match args with
  | [c0, c1, acks, votes] =>
    let c0 := idList c0
    let c1 := idList c1
    let ack := Quorum.lookup (pairList acks)
    let vt := Quorum.lookup ((pairList votes).map fun (a, b) => (a, b != 0))
    s!"ci={fmtIdx (Quorum.jointCommitted c0 c1 ack)} vr={(Quorum.jointVote c0 c1 vt).toString} ci0={fmtIdx (Quorum.majorityCommitted c0 ack)} vr0={(Quorum.majorityVote c0 vt).toString}"
  | _ => "bad-op"

structure DriverState where
  dummy : Unit := ()

def step (st : DriverState) (line : String) : DriverState × String :=
  match splitOn1 line.trimAscii.toString ' ' with
  | "q" :: args => (st, cmdQuorum args)
  | _ => (st, "bad-op")

partial def loop (h : IO.FS.Stream) (out : IO.FS.Stream) (st : DriverState) : IO Unit := do
  let line ← h.getLine
  if line.isEmpty then return ()
  let (st', o) := step st line
  out.putStrLn o
  loop h out st'

def main : IO Unit := do
  let stdin ← IO.getStdin
  let stdout ← IO.getStdout
  loop stdin stdout {}
  stdout.flush
