import RaftVerif.Model.Quorum
import RaftVerif.Model.Parse
import RaftVerif.Model.RawNode
import RaftVerif.Spec.Check
import RaftVerif.Spec.ReconfCheck
/-!
Line-protocol driver (compiled as `raftmodel`): one operation per input line, one answer per line.
See DESIGN.md Appendix B. Core Lean only.
-/
open RaftVerif RaftVerif.Parse

def fmtIdx : Option Nat → String
  | none => "inf"
  | some n => toString n

/-- `q <c0> <c1> <acks> <votes>` -/
def cmdQuorum (args : List String) : String :=
  match args with
  | [c0, c1, acks, votes] =>
    let c0 := idList c0
    let c1 := idList c1
    let ack := Quorum.lookup (pairList acks)
    let vt := Quorum.lookup ((pairList votes).map fun (a, b) => (a, b != 0))
    s!"ci={fmtIdx (Quorum.jointCommitted c0 c1 ack)} vr={(Quorum.jointVote c0 c1 vt).toString} ci0={fmtIdx (Quorum.majorityCommitted c0 ack)} vr0={(Quorum.majorityVote c0 vt).toString}"
  | _ => "bad-op"

/-! ### confchange unit command (tie X unit level, C13)

`cc <op> <v> <o> <l> <n> <a> <progress> <last> <mi> <args…>` with sets as comma lists, `-` = nil/empty;
progress = `id:learner:match:next:recentActive,…`; ops: `simple <changes>`, `enter <auto> <changes>`, `leave`,
`restore <v> <o> <l> <n> <a>`; changes = `v1,l2,r3,u4`. Answer: `ok <cfg> p=<progress>` or `err`. -/

def parseOptSet (s : String) : Option (List Nat) := if s == "-" then none else some (idList s)

def parseChanges (s : String) : List ConfChangeSingle :=
  if s == "-" || s == "" then []
  else (splitOn1 s ',').filterMap fun tok =>
    match tok.toList with
    | c :: rest =>
      let id := natOrZero (String.ofList rest)
      match c with
      | 'v' => some { typ := .addNode, nodeId := id }
      | 'l' => some { typ := .addLearnerNode, nodeId := id }
      | 'r' => some { typ := .removeNode, nodeId := id }
      | 'u' => some { typ := .updateNode, nodeId := id }
      | _ => none
    | [] => none

def parseProgress (s : String) (mi : Nat) : ProgressMap :=
  if s == "-" || s == "" then []
  else (splitOn1 s ',').filterMap fun tok =>
    match (splitOn1 tok ':').map natOrZero with
    | [id, lr, m, nx, ra] => some (id, ({ match_ := m, next := nx, isLearner := lr != 0, recentActive := ra != 0, inflights := { size := mi } } : Progress))
    | _ => none

def fmtCC (cfg : TrackerConfig) (trk : ProgressMap) : String :=
  let os (m : Option (List Nat)) : String := match m with | none => "-" | some l => "{" ++ fmtIds l ++ "}"
  "ok v={" ++ fmtIds cfg.voters ++ "}" ++ s!" o={os cfg.outgoing} l={os cfg.learners} n={os cfg.learnersNext} a={b2n cfg.autoLeave} p=" ++
    ",".intercalate (trk.map fun (id, pr) => s!"{id}:{b2n pr.isLearner}:{pr.match_}:{pr.next}:{b2n pr.recentActive}")

def cmdConfChange (args : List String) : String :=
  match args with
  | op :: v :: o :: l :: n :: a :: p :: last :: mi :: rest =>
    let mi := natOrZero mi
    let cfg : TrackerConfig := { voters := idList v, outgoing := parseOptSet o, learners := parseOptSet l,
                                 learnersNext := parseOptSet n, autoLeave := a == "1" }
    let trk : Tracker := { cfg := cfg, progress := parseProgress p mi, maxInflight := mi }
    let ch : Changer := { tracker := trk, lastIndex := natOrZero last }
    let res : Option (CE (TrackerConfig × ProgressMap)) :=
      match op, rest with
      | "simple", [cs] => some (ch.simple (parseChanges cs))
      | "enter", [auto, cs] => some (ch.enterJoint (auto == "1") (parseChanges cs))
      | "leave", _ => some ch.leaveJoint
      | "restore", [v', o', l', n', a'] =>
        some (restoreConf ch { voters := idList v', votersOutgoing := idList o', learners := idList l',
                               learnersNext := idList n', autoLeave := a' == "1" })
      | _, _ => none
    match res with
    | none => "bad-op"
    | some (.ok (cfg', trk')) => fmtCC cfg' trk'
    | some (.error _) => "err"
  | _ => "bad-op"

/-! ### token parsers -/

abbrev Tok := List String

def pNat (t : Tok) : Option (Nat × Tok) :=
  match t with
  | x :: rest => x.toNat?.map (·, rest)
  | [] => none

def pEntry (s : String) : Option Entry :=
  match splitOn1 s '.' with
  | [t, i, ty, d] =>
    match t.toNat?, i.toNat? with
    | some t, some i =>
      let typ := if ty == "-" then none else (ty.toNat?.bind EntryType.ofNat?)
      some { term := t, index := i, typ := typ, data := optBytes d }
    | _, _ => none
  | _ => none

def pEntries : Nat → Tok → Option (List Entry × Tok)
  | 0, t => some ([], t)
  | n + 1, x :: rest =>
    match pEntry x, pEntries n rest with
    | some e, some (es, rest') => some (e :: es, rest')
    | _, _ => none
  | _ + 1, [] => none

def pNEntries (t : Tok) : Option (List Entry × Tok) :=
  match pNat t with
  | some (n, rest) => pEntries n rest
  | none => none

/-- `-` | `S idx term v o l n a data` -/
def pSnap (t : Tok) : Option (Option Snapshot × Tok) :=
  match t with
  | "-" :: rest => some (none, rest)
  | "S" :: idx :: term :: v :: o :: l :: n :: a :: d :: rest =>
    match idx.toNat?, term.toNat? with
    | some idx, some term =>
      some (some { index := idx, term := term, data := optBytes d,
                   conf := { voters := idList v, votersOutgoing := idList o, learners := idList l,
                             learnersNext := idList n, autoLeave := a == "1" } }, rest)
    | _, _ => none
  | _ => none

/-- `m type from to term logterm index commit vote reject hint nents ents… snap ctx nresp resps…` -/
partial def pMsg (t : Tok) : Option (Message × Tok) := do
  let "m" :: t := t | none
  let (ty, t) ← pNat t
  let ty ← MsgType.ofNat? ty
  let (frm, t) ← pNat t
  let (to, t) ← pNat t
  let (term, t) ← pNat t
  let (logTerm, t) ← pNat t
  let (index, t) ← pNat t
  let (commit, t) ← pNat t
  let (vote, t) ← pNat t
  let (reject, t) ← pNat t
  let (hint, t) ← pNat t
  let (ents, t) ← pNEntries t
  let (snap, t) ← pSnap t
  let ctx :: t := t | none
  let (nresp, t) ← pNat t
  let mut resps : List Message := []
  let mut t := t
  for _ in List.range nresp do
    let (r, t') ← pMsg t
    resps := resps ++ [r]
    t := t'
  pure ({ typ := ty, «from» := frm, to := to, term := term, logTerm := logTerm, index := index, commit := commit,
          vote := vote, reject := reject != 0, rejectHint := hint, entries := ents, snapshot := snap,
          context := optBytes ctx, responses := resps }, t)

def pConfig (t : Tok) : Option (Config × Tok) := do
  let (id, t) ← pNat t
  let (et, t) ← pNat t
  let (ht, t) ← pNat t
  let (applied, t) ← pNat t
  let (async, t) ← pNat t
  let (msz, t) ← pNat t
  let (mcs, t) ← pNat t
  let (mus, t) ← pNat t
  let (mi, t) ← pNat t
  let (mib, t) ← pNat t
  let (cq, t) ← pNat t
  let (pv, t) ← pNat t
  let (ro, t) ← pNat t
  let (dpf, t) ← pNat t
  let (dcv, t) ← pNat t
  let (sdr, t) ← pNat t
  pure ({ id := id, electionTick := et, heartbeatTick := ht, applied := applied, asyncStorageWrites := async != 0,
          maxSizePerMsg := msz, maxCommittedSizePerReady := mcs, maxUncommittedEntriesSize := mus,
          maxInflightMsgs := mi, maxInflightBytes := mib, checkQuorum := cq != 0, preVote := pv != 0,
          readOnlyOption := ro, disableProposalForwarding := dpf != 0, disableConfChangeValidation := dcv != 0,
          stepDownOnRemoval := sdr != 0 }, t)

/-- `hs snap nents ents…`, hs = `-` | `t.v.c` -/
def pStorage (t : Tok) : Option (MemoryStorage × Tok) := do
  let hs :: t := t | none
  let hs : Option HardState :=
    if hs == "-" then none
    else match (splitOn1 hs '.').map natOrZero with
      | [a, b, c] => some { term := a, vote := b, commit := c }
      | _ => none
  let (snap, t) ← pSnap t
  let (ents, t) ← pNEntries t
  pure ({ hardState := hs, snapshot := snap.getD {}, ents := ents }, t)

/-! ### node state table -/

inductive Slot where
  | live (rn : RawNode)
  | dead (sto : MemoryStorage) (why : String)

structure DriverState where
  nodes : List (Nat × Slot) := []
  verbose : Bool := false
  spec : Spec.Checker := {}
  specR : SpecR.Checker := {}
  logs : List (Nat × RaftLog) := []
  ros : List (Nat × ReadOnly) := []

def DriverState.get (st : DriverState) (k : Nat) : Option Slot := Quorum.lookup st.nodes k
def DriverState.put (st : DriverState) (k : Nat) (s : Slot) : DriverState :=
  { st with nodes := (k, s) :: st.nodes.filter (·.1 != k) }

def fmtErr : Option ApiErr → String
  | none => "err=-"
  | some e => "err=" ++ e.toString

def splitDraws (t : Tok) : Tok × List Nat :=
  match t.getLast? with
  | some last =>
    if last.startsWith "d=" then (t.dropLast, idList (last.drop 2).toString) else (t, [])
  | none => (t, [])

/-- storage operations (the application / storage thread writing to the MemoryStorage) -/
def storageOp (sto : MemoryStorage) (op : String) (args : Tok) : Option (String × MemoryStorage) :=
  match op, args with
  | "st-hs", [a, b, c] =>
    some ("ok", sto.setHardState { term := natOrZero a, vote := natOrZero b, commit := natOrZero c })
  | "st-append", t =>
    match pNEntries t with
    | none => some ("bad-op", sto)
    | some (ents, _) =>
      match sto.append ents with
      | .ok sto' => some ("ok", sto')
      | .error _ => some ("panic", sto)
  | "st-applysnap", t =>
    match pSnap t with
    | some (some s, _) =>
      match sto.applySnapshot s with
      | .ok sto' => some ("ok", sto')
      | .error e => some (e.toString, sto)
    | _ => some ("bad-op", sto)
  | "st-mksnap", i :: t =>
    match pSnap t with
    | some (cs, d :: _) =>
      match sto.createSnapshot (natOrZero i) (cs.map (·.conf)) (optBytes d) with
      | .ok (.ok (sto', s)) => some (fmtSnapshot (some s), sto')
      | .ok (.error e) => some (e.toString, sto)
      | .error _ => some ("panic", sto)
    | _ => some ("bad-op", sto)
  | "st-compact", [i] =>
    match sto.compact (natOrZero i) with
    | .ok (.ok sto') => some ("ok", sto')
    | .ok (.error e) => some (e.toString, sto)
    | .error _ => some ("panic", sto)
  | _, _ => none

def slotStorage : Slot → MemoryStorage
  | .live rn => rn.raft.log.storage
  | .dead sto _ => sto

def slotSetStorage (s : Slot) (sto : MemoryStorage) : Slot :=
  match s with
  | .live rn => .live { rn with raft := { rn.raft with log := { rn.raft.log with storage := sto } } }
  | .dead _ why => .dead sto why

/-- one node operation: returns (output text, new slot) -/
def nodeOp (slot : Option Slot) (op : String) (args : Tok) (draws : List Nat) : String × Option Slot :=
  let fail (rn : RawNode) (e : String) : String × Option Slot := ("panic", some (.dead rn.raft.log.storage e))
  match op, slot with
  | "new", _ =>
    match (pConfig args).bind (fun (c, t) =>
        match t with
        | "sto" :: t => (pStorage t).map (fun (sto, _) => (c, sto))
        | _ => none) with
    | none => ("bad-op", slot)
    | some (c, sto) =>
      match RawNode.new c sto draws with
      | .ok rn => ("ok", some (.live rn))
      | .error e => ("panic", some (.dead sto e))
  | "restart", some s =>
    let sto := slotStorage s
    match pConfig args with
    | none => ("bad-op", slot)
    | some (c, _) =>
      match RawNode.new c sto draws with
      | .ok rn => ("ok", some (.live rn))
      | .error e => ("panic", some (.dead sto e))
  | _, none => ("no-node", slot)
  | op, some s =>
    match storageOp (slotStorage s) op args with
    | some (out, sto') => (out, some (slotSetStorage s sto'))
    | none =>
    match s with
    | .dead _ _ => ("dead", slot)
    | .live rn =>
    let api (r : Except String (Option ApiErr × RawNode)) : String × Option Slot :=
      match r with
      | .ok (e, rn') => (fmtErr e, some (.live rn'))
      | .error e => fail rn e
    match op, args with
    | "tick", _ =>
      match rn.tick draws with
      | .ok rn' => ("ok", some (.live rn'))
      | .error e => fail rn e
    | "campaign", _ => api (rn.campaign draws)
    | "propose", [d] => api (rn.propose draws (optBytes d))
    | "proposecc", [ty, d] =>
      match ty.toNat?.bind EntryType.ofNat? with
      | some ty => api (rn.proposeConfChange draws ty (optBytes d))
      | none => ("bad-op", slot)
    | "step", t =>
      match pMsg t with
      | some (m, _) => api (rn.step draws m)
      | none => ("bad-op", slot)
    | "ready", _ =>
      match rn.ready with
      | .ok (rd, rn') => (RawNode.fmtReady rd, some (.live rn'))
      | .error e => fail rn e
    | "hasready", _ => (toString (b2n rn.hasReady), slot)
    | "advance", _ =>
      match rn.advance draws with
      | .ok rn' => ("ok", some (.live rn'))
      | .error e => fail rn e
    | "applycc", [v, d] =>
      let cc := if v == "1" then decodeConfChangeV1AsV2 ((optBytes d).getD []) else decodeConfChangeV2 ((optBytes d).getD [])
      match cc with
      | none => ("bad-op", slot)
      | some cc =>
        match rn.applyConfChange draws cc with
        | .ok (cs, rn') => (fmtConfState cs, some (.live rn'))
        | .error e => fail rn e
    | "unreachable", [id] => api (rn.reportUnreachable draws (natOrZero id))
    | "snapstatus", [id, f] => api (rn.reportSnapshot draws (natOrZero id) (f == "1"))
    | "transfer", [id] => api (rn.transferLeader draws (natOrZero id))
    | "forget", _ => api (rn.forgetLeader draws)
    | "readindex", [d] => api (rn.readIndex draws (optBytes d))
    | "crash", _ => ("ok", some (.dead rn.raft.log.storage "crashed"))
    | _, _ => ("bad-op", slot)

/-! ### log unit commands (tie X unit level, C18 / C08): `lg <k> <op> args…` on a standalone raftLog -/

def fmtSE {α : Type} (f : α → String) : Except StorageErr α → String
  | .ok a => f a
  | .error e => e.toString

/-- unit-level operations on the read-only bookkeeping (read_only.go) -/
def roOp (ro : ReadOnly) (op : String) (args : Tok) : String × ReadOnly :=
  match op, args with
  | "add", commit :: rest =>
    match pMsg rest with
    | some (m, _) => ("ok", ro.addRequest (natOrZero commit) m)
    | none => ("bad-op", ro)
  | "ack", [frm, ctx] =>
    match ro.recvAck (natOrZero frm) (optBytes ctx) with
    | .ok ro' => ("ok", ro')
    | .error _ => ("panic", ro)
  | "adv", [c0, c1] =>
    match ro.maybeAdvance (idList c0) (idList c1) with
    | .ok (ro', rel) => ("[" ++ ",".intercalate (rel.map fun rq => s!"{rq.index}@{fmtMessage rq.req}") ++ "]", ro')
    | .error _ => ("panic", ro)
  | "hb", [] => (fmtOptBytes ro.heartbeatCtx, ro)
  | _, _ => ("bad-op", ro)


def logOp (l : RaftLog) (op : String) (args : Tok) : String × RaftLog :=
  let n (s : String) := natOrZero s
  let pz {α : Type} (r : P α) (f : α → String × RaftLog) : String × RaftLog :=
    match r with
    | .ok a => f a
    | .error _ => ("panic", l)
  match storageOp l.storage op args with
  | some (out, sto') => (out, { l with storage := sto' })
  | none =>
  match op, args with
  | "sfirst", _ => (toString l.storage.firstIndex, l)
  | "slast", _ => (toString l.storage.lastIndex, l)
  | "sterm", [i] => (fmtSE toString (l.storage.term (n i)), l)
  | "sents", [lo, hi, mx] => pz (l.storage.entries (n lo) (n hi) (n mx)) fun r => (fmtSE fmtEntries r, l)
  | "append", t =>
    match pNEntries t with
    | some (ents, _) => pz (l.append ents) fun (l', li) => (toString li, l')
    | none => ("bad-op", l)
  | "maybeappend", pi :: pt :: c :: t =>
    match pNEntries t with
    | some (ents, _) =>
      pz (l.maybeAppend { term := n pt, index := n pi } ents (n c)) fun (l', r) =>
        (match r with | some li => s!"{li} true" | none => "0 false", l')
    | none => ("bad-op", l)
  | "findconflict", t =>
    match pNEntries t with
    | some (ents, _) => (toString (l.findConflict ents), l)
    | none => ("bad-op", l)
  | "findconflictbyterm", [i, t] => let (a, b) := l.findConflictByTerm (n i) (n t); (s!"{a} {b}", l)
  | "stableto", [i, t] => ("ok", l.stableTo { term := n t, index := n i })
  | "stablesnapto", [i] => ("ok", l.stableSnapTo (n i))
  | "acceptunstable", _ => ("ok", l.acceptUnstable)
  | "restore", t =>
    match pSnap t with
    | some (some s, _) => ("ok", l.restore s)
    | _ => ("bad-op", l)
  | "committo", [i] => pz (l.commitTo (n i)) fun l' => ("ok", l')
  | "maybecommit", [i, t] => pz (l.maybeCommit { term := n t, index := n i }) fun (l', b) => (toString (b2n b), l')
  | "nextcommitted", [a] => pz (l.nextCommittedEnts (a == "1")) fun es => (fmtEntries es, l)
  | "hasnextcommitted", [a] => (toString (b2n (l.hasNextCommittedEnts (a == "1"))), l)
  | "acceptapplying", [i, sz, a] => pz (l.acceptApplying (n i) (n sz) (a == "1")) fun l' => ("ok", l')
  | "appliedto", [i, sz] => pz (l.appliedTo (n i) (n sz)) fun l' => ("ok", l')
  | "term", [i] => (fmtSE toString (l.term (n i)), l)
  | "slice", [lo, hi, mx] => pz (l.slice (n lo) (n hi) (n mx)) fun r => (fmtSE fmtEntries r, l)
  | "entries", [i, mx] => pz (l.entries (n i) (n mx)) fun r => (fmtSE fmtEntries r, l)
  | "first", _ => (toString l.firstIndex, l)
  | "last", _ => (toString l.lastIndex, l)
  | "lastterm", _ => pz l.lastEntryID fun id => (toString id.term, l)
  | "nextunstable", _ => (fmtEntries l.nextUnstableEnts, l)
  | "nextunstablesnap", _ => (fmtSnapshot l.unstable.nextSnapshot, l)
  | "isuptodate", [i, t] => pz (l.isUpToDate { term := n t, index := n i }) fun b => (toString (b2n b), l)
  | "matchterm", [i, t] => (toString (b2n (l.matchTerm { term := n t, index := n i })), l)
  | "snapshot", _ => (fmtSnapshot (some l.snapshot), l)
  | "entssize", t =>
    match pNEntries t with
    | some (ents, _) => (s!"{entsSize ents} {payloadsSize ents}", l)
    | none => ("bad-op", l)
  | "limitsize", mx :: t =>
    match pNEntries t with
    | some (ents, _) => (fmtEntries (limitSize ents (n mx)), l)
    | none => ("bad-op", l)
  | _, _ => ("bad-op", l)

def slotDump : Option Slot → String
  | some (.live rn) => rn.dump
  | some (.dead sto _) => s!"dead sto: {fmtStorage sto}"
  | none => "none"

def step (st : DriverState) (line : String) : DriverState × String :=
  match splitOn1 line.trimAscii.toString ' ' with
  | "q" :: args => (st, cmdQuorum args)
  | "cc" :: args => (st, cmdConfChange args)
  | "lg" :: k :: "new" :: mx :: rest =>
    match pStorage rest with
    | some (sto, _) =>
      let l := RaftLog.new sto (natOrZero mx)
      ({ st with logs := (natOrZero k, l) :: st.logs.filter (·.1 != natOrZero k) }, s!"ok | {fmtLog l} | {fmtStorage l.storage}")
    | none => (st, "bad-op")
  | "lg" :: k :: op :: rest =>
    match Quorum.lookup st.logs (natOrZero k) with
    | none => (st, "no-log")
    | some l =>
      let (out, l') := logOp l op rest
      ({ st with logs := (natOrZero k, l') :: st.logs.filter (·.1 != natOrZero k) }, s!"{out} | {fmtLog l'} | {fmtStorage l'.storage}")
  | ["ro", k, "new"] =>
    let ro : ReadOnly := {}
    ({ st with ros := (natOrZero k, ro) :: st.ros.filter (·.1 != natOrZero k) }, s!"ok | {RawNode.fmtReadOnly ro}")
  | "ro" :: k :: op :: rest =>
    match Quorum.lookup st.ros (natOrZero k) with
    | none => (st, "no-ro")
    | some ro =>
      let (out, ro') := roOp ro op rest
      ({ st with ros := (natOrZero k, ro') :: st.ros.filter (·.1 != natOrZero k) }, s!"{out} | {RawNode.fmtReadOnly ro'}")
  | ["verbose", v] => ({ st with verbose := v == "1" }, "ok")
  | ["sp", "init", c0, c1] =>
    ({ st with spec := { cfg := Spec.jointCfg (idList c0) (idList c1) } }, "ok")
  | "sp" :: "a" :: rest =>
    let (c, out) := st.spec.act rest
    ({ st with spec := c }, out)
  | "sp" :: "cmp" :: n :: rest =>
    match st.spec.failed with
    | some _ => (st, "skipped")
    | none =>
      let want := " ".intercalate rest
      let got := Spec.nodeText st.spec.st (natOrZero n)
      if want == got then (st, "ok") else (st, s!"DIFF spec=[{got}] impl=[{want}]")
  | "sp" :: "cmpd" :: n :: rest =>
    match st.spec.failed with
    | some _ => (st, "skipped")
    | none =>
      let want := " ".intercalate rest
      let got := Spec.verText (st.spec.st.nodes (natOrZero n)).dur
      if want == got then (st, "ok") else (st, s!"DIFF spec-dur=[{got}] impl=[{want}]")
  | ["spr", "init", c0, c1] =>
    ({ st with specR := { c0 := (idList c0, idList c1) } }, "ok")
  | "spr" :: "a" :: rest =>
    let (c, out) := st.specR.act rest
    ({ st with specR := c }, out)
  | "spr" :: "cmp" :: n :: rest =>
    match st.specR.failed with
    | some _ => (st, "skipped")
    | none =>
      let want := " ".intercalate rest
      let got := SpecR.nodeText st.specR.c0 st.specR.st (natOrZero n)
      if want == got then (st, "ok") else (st, s!"DIFF spec=[{got}] impl=[{want}]")
  | "spr" :: "cmpd" :: n :: rest =>
    match st.specR.failed with
    | some _ => (st, "skipped")
    | none =>
      let want := " ".intercalate rest
      let got := SpecR.verText (st.specR.st.nodes (natOrZero n)).dur
      if want == got then (st, "ok") else (st, s!"DIFF spec-dur=[{got}] impl=[{want}]")
  | "n" :: k :: op :: rest =>
    let k := natOrZero k
    let (args, draws) := splitDraws rest
    let (out, slot') := nodeOp (st.get k) op args draws
    let st' := match slot' with | some s => st.put k s | none => st
    let dump := slotDump (st'.get k)
    let why := match st'.get k with | some (.dead _ w) => s!" why={w}" | _ => ""
    if st.verbose then (st', s!"out={out} || state={dump}{why}")
    else (st', s!"{hex64 (fnv64 out)} {hex64 (fnv64 dump)}")
  | _ => (st, "bad-op")

partial def loop (h : IO.FS.Stream) (out : IO.FS.Stream) (st : DriverState) : IO Unit := do
  let line ← h.getLine
  if line.isEmpty then return ()
  let (st', o) := step st line
  out.putStrLn o
  loop h out st'

def main : IO Unit := do
  let stdin ← IO.getStdin
  let stdout ← IO.getStdout
  loop stdin stdout {}
  stdout.flush
