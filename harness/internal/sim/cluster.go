package sim

import (
	"fmt"
	"math/rand"
	"sort"

	"go.etcd.io/raft/v3"
	pb "go.etcd.io/raft/v3/raftpb"
	"google.golang.org/protobuf/proto"
)

// Opts describes one simulated cluster run. Everything random derives from Seed.
type Opts struct {
	Seed     int64    `json:"seed"`
	Voters   []uint64 `json:"voters"`
	Learners []uint64 `json:"learners"`
	Steps    int      `json:"steps"`

	Async        bool   `json:"async"`
	PreVote      []bool `json:"prevote"`     // per node (index by position in Voters++Learners); len 1 = all
	CheckQuorum  []bool `json:"checkquorum"` // idem
	ElectionTick int    `json:"election_tick"`

	MaxSizePerMsg             uint64 `json:"max_size_per_msg"`
	MaxCommittedSizePerReady  uint64 `json:"max_committed_size"`
	MaxUncommittedEntriesSize uint64 `json:"max_uncommitted"`
	MaxInflightMsgs           int    `json:"max_inflight"`
	MaxInflightBytes          uint64 `json:"max_inflight_bytes"`
	ReadOnlyLease             bool   `json:"readonly_lease"`
	DisableProposalForwarding bool   `json:"disable_fwd"`
	StepDownOnRemoval         bool   `json:"stepdown_on_removal"`

	Crashes     bool `json:"crashes"`
	CrashHeavy  bool `json:"crash_heavy"`
	ConfChanges bool `json:"confchanges"`
	Compaction  bool `json:"compaction"`
	Transfers   bool `json:"transfers"`
	Reads       bool `json:"reads"`
	Partitions  bool `json:"partitions"`
	// IsolateLeader: partitions preferably cut the current leader off (divergent uncommitted tails)
	IsolateLeader bool `json:"isolate_leader"`
	// SnapHeavy: compact often so that lagging followers need snapshots
	SnapHeavy bool `json:"snap_heavy"`
	LossPct     int  `json:"loss_pct"`
	DupPct      int  `json:"dup_pct"`
	BigPayloads bool `json:"big_payloads"`
	BaseIndex   uint64 `json:"base_index"`

	// SpecCheck: also abstract the run into actions of Spec/Raft.lean (static membership, BaseIndex 0)
	SpecCheck bool `json:"spec_check"`
	// SpecR: the run has membership changes and is abstracted into actions of Spec/Reconf.lean (BaseIndex 0; every
	// node, also one that joins later, boots knowing the initial configuration)
	SpecR bool `json:"spec_r,omitempty"`
	// JointHeavy: configuration changes enter explicit joint configurations and leave them rarely; more reads
	JointHeavy bool `json:"joint_heavy,omitempty"`
	// Fuzz > 0: single-node fuzzing with that many steps instead of a cluster run (fuzz.go)
	Fuzz int `json:"fuzz,omitempty"`
	// IDMul (nodefuzz): node ids are i*IDMul; SpreadIDMul spreads 1..7 over the 64-bit range (cluster runs carry
	// the scaled ids in Voters/Learners directly)
	IDMul uint64 `json:"id_mul,omitempty"`
	// Script replaces the random scheduler (see scenario.go)
	Script []string `json:"script,omitempty"`
	// Converge > 0: after Steps random actions run a fault-free suffix of that many election timeouts (C15)
	Converge int `json:"converge"`
	// KeepText keeps full output/state texts in the recorder (replay mode)
	KeepText bool `json:"-"`
	// Trace prints every environment action
	Trace bool `json:"-"`
}

type Violation struct {
	Prop string `json:"property"`
	Key  string `json:"key"`
	What string `json:"what"`
	Step int    `json:"step"`
}

type netMsg struct {
	m    *pb.Message
	from uint64
}

// Cluster is the environment: nodes, network soup, storage threads, application, faults.
type Cluster struct {
	O     Opts
	Rng   *rand.Rand
	Nodes map[uint64]*Node
	IDs   []uint64 // all node ids ever created, sorted
	Net   []netMsg
	// Archive: messages that were sent earlier and may show up again (late duplicates)
	Archive []netMsg
	Rec   *Rec
	Mon   *Monitor
	Spec  *SpecTracer
	StepN int
	// partition: group id per node (0 = connected to everybody in group 0)
	Part map[uint64]int

	propSeq int
	readSeq int
	nextID  uint64
	// pending snapshot status reports: leader -> follower
	snapsInFlight map[[2]uint64]bool

	Violations []Violation
	Stats      map[string]int
	TraceLog   []string
	quiesce    bool
	initCS     *pb.ConfState // the configuration the group starts with
}

// SpreadIDMul: i*SpreadIDMul for i in 1..7 covers the 64-bit id space (ids differ by >= 2^61, up to 0xE000...07)
const SpreadIDMul uint64 = 0x2000000000000001

func pick[T any](r *rand.Rand, xs []T) T { return xs[r.Intn(len(xs))] }

func (c *Cluster) perNode(bs []bool, i int) bool {
	if len(bs) == 0 {
		return false
	}
	if len(bs) == 1 {
		return bs[0]
	}
	return bs[i%len(bs)]
}

func (c *Cluster) nodeConfig(id uint64, pos int) raft.Config {
	o := c.O
	ro := raft.ReadOnlySafe
	cq := c.perNode(o.CheckQuorum, pos)
	if o.ReadOnlyLease && cq {
		ro = raft.ReadOnlyLeaseBased
	}
	return raft.Config{
		ID: id, ElectionTick: o.ElectionTick, HeartbeatTick: 1,
		AsyncStorageWrites: o.Async, MaxSizePerMsg: o.MaxSizePerMsg, MaxCommittedSizePerReady: o.MaxCommittedSizePerReady,
		MaxUncommittedEntriesSize: o.MaxUncommittedEntriesSize, MaxInflightMsgs: o.MaxInflightMsgs,
		MaxInflightBytes: o.MaxInflightBytes, CheckQuorum: cq, PreVote: c.perNode(o.PreVote, pos),
		ReadOnlyOption: ro, DisableProposalForwarding: o.DisableProposalForwarding, StepDownOnRemoval: o.StepDownOnRemoval,
	}
}

func NewCluster(o Opts) *Cluster {
	if o.ElectionTick == 0 {
		o.ElectionTick = 10
	}
	if o.MaxInflightMsgs == 0 {
		o.MaxInflightMsgs = 8
	}
	if o.SpecCheck {
		o.SpecR = false
	}
	if o.BaseIndex == 0 && !o.SpecCheck && !o.SpecR {
		o.BaseIndex = 2
	}
	if o.SpecCheck {
		o.BaseIndex, o.ConfChanges = 0, false
	}
	if o.SpecR {
		o.BaseIndex = 0
	}
	c := &Cluster{O: o, Rng: rand.New(rand.NewSource(o.Seed)), Nodes: map[uint64]*Node{}, Part: map[uint64]int{},
		Rec: &Rec{Keep: o.KeepText}, Stats: map[string]int{}, snapsInFlight: map[[2]uint64]bool{}}
	theDraws.rng = rand.New(rand.NewSource(o.Seed ^ 0x5eed))
	c.Mon = newMonitor(c)
	if o.SpecCheck || o.SpecR {
		c.Spec = newSpecTracer(c)
	}
	cs := &pb.ConfState{Voters: append([]uint64(nil), o.Voters...), Learners: append([]uint64(nil), o.Learners...)}
	c.initCS = cs
	all := append(append([]uint64(nil), o.Voters...), o.Learners...)
	for pos, id := range all {
		c.addNode(id, pos, cs, true)
		if id >= c.nextID {
			c.nextID = id + 1
		}
	}
	return c
}

// addNode creates a node whose storage starts from a snapshot at BaseIndex with ConfState cs
// (initial members), or from an empty storage (a node added later learns everything from the leader).
func (c *Cluster) addNode(id uint64, pos int, cs *pb.ConfState, member bool) *Node {
	st := raft.NewMemoryStorage()
	n := &Node{ID: id, Cfg: c.nodeConfig(id, pos), St: st, AppliedEnts: map[uint64]string{}, rec: c.Rec, c: c}
	applied := uint64(0)
	if member {
		bt := uint64(1)
		if c.O.BaseIndex == 0 {
			bt = 0
		}
		snap := &pb.Snapshot{Metadata: &pb.SnapshotMetadata{Index: new(c.O.BaseIndex), Term: new(bt),
			ConfState: proto.Clone(cs).(*pb.ConfState)}}
		if err := st.ApplySnapshot(snap); err != nil {
			panic(err)
		}
		n.InitConf = proto.Clone(cs).(*pb.ConfState)
		applied = c.O.BaseIndex
	} else if c.O.SpecR {
		// a node that joins later boots from the bootstrap ConfState (index 0, term 0), like every initial member
		snap := &pb.Snapshot{Metadata: &pb.SnapshotMetadata{Index: new(uint64(0)), Term: new(uint64(0)), ConfState: proto.Clone(c.initCS).(*pb.ConfState)}}
		if err := st.ApplySnapshot(snap); err != nil {
			panic(err)
		}
		n.InitConf = proto.Clone(c.initCS).(*pb.ConfState)
	} else {
		n.InitConf = &pb.ConfState{}
	}
	c.Nodes[id] = n
	c.IDs = append(c.IDs, id)
	sort.Slice(c.IDs, func(i, j int) bool { return c.IDs[i] < c.IDs[j] })
	n.Start(applied, false)
	c.Mon.onStart(n)
	if c.Spec != nil {
		c.Spec.onStart(n)
	}
	return n
}

func (c *Cluster) trace(format string, a ...any) {
	if c.O.Trace {
		c.TraceLog = append(c.TraceLog, fmt.Sprintf("[%d] ", c.StepN)+fmt.Sprintf(format, a...))
	}
}

func (c *Cluster) violate(prop, key, format string, a ...any) {
	for _, v := range c.Violations {
		if v.Prop == prop && v.Key == key {
			return
		}
	}
	c.Violations = append(c.Violations, Violation{Prop: prop, Key: key, What: fmt.Sprintf(format, a...), Step: c.StepN})
}

func (c *Cluster) onPanic(n *Node, op string) {
	c.Mon.onPanic(n, op)
}

func (c *Cluster) alive() []*Node {
	var out []*Node
	for _, id := range c.IDs {
		if n := c.Nodes[id]; n.Alive && n.RN != nil {
			out = append(out, n)
		}
	}
	return out
}

func (c *Cluster) connected(a, b uint64) bool { return c.Part[a] == c.Part[b] }

// send puts a message on the network (deep copy, as a transport would).
func (c *Cluster) send(from *Node, m *pb.Message) {
	c.Mon.onSend(from, m)
	if c.Spec != nil {
		c.Spec.onSend(from, m)
	}
	if m.GetTo() == from.ID {
		// self-addressed messages never leave the node through the network
		c.violate("C14", "self-addressed message handed to the network", "node %d emitted %s to itself", from.ID, m.GetType())
		return
	}
	nm := netMsg{m: cloneMsg(m), from: from.ID}
	c.Net = append(c.Net, nm)
	// keep some of the traffic for late re-delivery (snapshots and appends preferably)
	if keep := m.GetType() == pb.MsgSnap || m.GetType() == pb.MsgApp || c.Rng.Intn(4) == 0; keep {
		if len(c.Archive) < 300 {
			c.Archive = append(c.Archive, nm)
		} else {
			c.Archive[c.Rng.Intn(len(c.Archive))] = nm
		}
	}
	if m.GetType() == pb.MsgSnap {
		c.snapsInFlight[[2]uint64{from.ID, m.GetTo()}] = true
	}
}

// deliver hands network message k to its destination.
func (c *Cluster) deliver(k int, remove bool) {
	nm := c.Net[k]
	if remove {
		c.Net = append(c.Net[:k], c.Net[k+1:]...)
	}
	dst := c.Nodes[nm.m.GetTo()]
	if dst == nil || !dst.Alive || dst.RN == nil || !c.connected(nm.from, nm.m.GetTo()) {
		c.Stats["msg_lost"]++
		if src := c.Nodes[nm.from]; src != nil && src.Alive && src.RN != nil && c.Rng.Intn(3) == 0 && !c.quiesce {
			c.trace("report unreachable %d->%d", nm.from, nm.m.GetTo())
			src.ReportUnreachable(nm.m.GetTo())
		}
		return
	}
	m := nm.m
	if !remove {
		m = cloneMsg(m)
	}
	c.trace("deliver %s", raft.VerifFmtMessage(m))
	c.Stats["deliver_"+m.GetType().String()]++
	c.Mon.beforeStep(dst, m)
	err := dst.Step(m)
	c.Mon.afterStep(dst, m, err)
}

// processReady runs the application's Ready loop for node n once.
// crashAt: 0 none, 1 after Ready (nothing persisted), 2 after persisting (messages unsent), 3 after sending.
func (c *Cluster) processReady(n *Node, crashAt int) {
	if !n.Alive || n.RN == nil {
		return
	}
	rd, ok := n.Ready()
	if !ok {
		return
	}
	c.Mon.onReady(n, &rd)
	if c.O.Async {
		for _, m := range rd.Messages {
			switch m.GetTo() {
			case raft.LocalAppendThread:
				n.AppendQ = append(n.AppendQ, m)
				n.AppendDig = append(n.AppendDig, fnv64(raft.VerifFmtMessage(m)))
				if c.Spec != nil {
					c.Spec.onWrite(n)
				}
			case raft.LocalApplyThread:
				n.ApplyQ = append(n.ApplyQ, m)
				n.ApplyDig = append(n.ApplyDig, fnv64(raft.VerifFmtMessage(m)))
			default:
				c.send(n, m)
			}
		}
		return
	}
	if crashAt == 1 {
		c.crash(n)
		return
	}
	if c.Spec != nil {
		c.Spec.onWrite(n)
	}
	// persist (one atomic batch: snapshot, entries, hard state); the write is synced to disk only if the Ready
	// says MustSync, otherwise it may be lost by a crash (see crash)
	c.persist(n, rd.Snapshot, rd.Entries, rd.HardState, rd.MustSync || !raft.IsEmptySnap(rd.Snapshot)) // a snapshot is always saved durably
	if crashAt == 2 {
		c.crash(n)
		return
	}
	for _, m := range rd.Messages {
		c.send(n, m)
	}
	if crashAt == 3 {
		c.crash(n)
		return
	}
	if !raft.IsEmptySnap(rd.Snapshot) {
		c.appRestore(n, rd.Snapshot)
	}
	c.appApply(n, rd.CommittedEntries)
	if n.Alive && n.RN != nil {
		n.Advance()
		c.Mon.afterAdvance(n)
	}
}

func (c *Cluster) persist(n *Node, snap *pb.Snapshot, ents []*pb.Entry, hs *pb.HardState, mustSync bool) {
	if !mustSync {
		if n.SyncedHS == nil {
			prev, _, _ := n.St.InitialState()
			n.SyncedHS = proto.Clone(prev).(*pb.HardState)
			n.SyncedLast, _ = n.St.LastIndex()
		}
		c.Stats["ready_unsynced"]++
	}
	if !raft.IsEmptySnap(snap) {
		if err := n.StApplySnapshot(snap); err != nil {
			c.Stats["applysnap_err"]++
		}
	}
	n.StAppend(ents)
	if !raft.IsEmptyHardState(hs) {
		n.StSetHardState(hs)
	}
	c.Mon.onPersist(n)
	if mustSync {
		n.SyncedHS = nil
	}
	// The abstract protocol has no notion of an unsynced write (its promises are durable as a whole version):
	// in runs replayed through it every write counts as persisted and a crash loses nothing (see crash);
	// the monitors still judge promises against DurableHS.
	if c.Spec != nil {
		c.Spec.onPersist(n)
	}
}

// fsync makes every outstanding unsynced write of n durable.
func (c *Cluster) fsync(n *Node) { n.SyncedHS = nil }

// appRestore installs a snapshot into the application state machine.
func (c *Cluster) appRestore(n *Node, snap *pb.Snapshot) {
	idx := snap.GetMetadata().GetIndex()
	c.Mon.onSnapshotApplied(n, snap)
	n.Applied = idx
	n.NextApply = idx + 1
	n.ConfHist = append(n.ConfHist, confAt{Index: idx, CS: proto.Clone(snap.GetMetadata().GetConfState()).(*pb.ConfState)})
}

// appApply applies committed entries in order; conf changes are passed to ApplyConfChange.
func (c *Cluster) appApply(n *Node, ents []*pb.Entry) {
	for _, e := range ents {
		if !n.Alive || n.RN == nil {
			return
		}
		if c.O.Async && e.GetIndex() <= n.Applied {
			// the append thread installed a snapshot covering this entry while the batch was waiting in the
			// apply thread's queue: the state machine is already past it (the hand-out order itself is
			// checked by the C08 monitor when the batch leaves the node)
			c.Stats["apply_skipped_covered_by_snapshot"]++
			continue
		}
		c.Mon.onApply(n, e)
		n.Applied = e.GetIndex()
		n.NextApply = e.GetIndex() + 1
		switch e.GetType() {
		case pb.EntryConfChange:
			var cc pb.ConfChange
			if err := proto.Unmarshal(e.GetData(), &cc); err != nil {
				panic(err)
			}
			cs := n.ApplyCC(true, e.GetData(), &cc)
			c.onConfApplied(n, e, cs)
		case pb.EntryConfChangeV2:
			var cc pb.ConfChangeV2
			if err := proto.Unmarshal(e.GetData(), &cc); err != nil {
				panic(err)
			}
			cs := n.ApplyCC(false, e.GetData(), &cc)
			c.onConfApplied(n, e, cs)
		}
	}
}

func (c *Cluster) onConfApplied(n *Node, e *pb.Entry, cs *pb.ConfState) {
	if cs == nil {
		return
	}
	n.ConfHist = append(n.ConfHist, confAt{Index: e.GetIndex(), CS: proto.Clone(cs).(*pb.ConfState)})
	c.Mon.onConfApplied(n, e, cs)
	c.appSnapshotHousekeeping(n)
	if c.Mon.off {
		return
	}
	// start any node that just became a member and does not exist yet
	for _, set := range [][]uint64{cs.GetVoters(), cs.GetLearners(), cs.GetVotersOutgoing(), cs.GetLearnersNext()} {
		for _, id := range set {
			if c.Nodes[id] == nil {
				c.trace("start new member %d", id)
				c.addNode(id, len(c.IDs), nil, false)
			}
		}
	}
}

// appSnapshotHousekeeping: an application whose Storage serves snapshots from the last CreateSnapshot
// (as MemoryStorage does) records a snapshot whenever it has applied a configuration change, so that
// the snapshot it can offer always reflects the configuration (MemoryStorage.CreateSnapshot comment).
// The snapshot index must already be covered by the stored commit index and stored log.
func (c *Cluster) appSnapshotHousekeeping(n *Node) {
	if !n.Alive || n.RN == nil || len(n.ConfHist) == 0 {
		return
	}
	last := n.ConfHist[len(n.ConfHist)-1]
	snap, _ := n.St.Snapshot()
	if snap.GetMetadata().GetIndex() >= last.Index {
		return
	}
	hs, _, _ := n.St.InitialState()
	li, _ := n.St.LastIndex()
	i := min(n.Applied, hs.GetCommit(), li)
	if i < last.Index {
		return
	}
	c.fsync(n) // saving a snapshot syncs the log
	n.StCreateSnapshot(i, n.confAtIndex(i), []byte(fmt.Sprintf("s%d", i)))
}

// appendThread processes the oldest MsgStorageAppend of node n (async storage writes).
func (c *Cluster) appendThread(n *Node) {
	if len(n.AppendQ) == 0 || !n.Alive || n.RN == nil {
		return
	}
	m := n.AppendQ[0]
	n.AppendQ = n.AppendQ[1:]
	if len(n.AppendDig) > 0 {
		if d := fnv64(raft.VerifFmtMessage(m)); d != n.AppendDig[0] {
			c.violate("*", "data handed out by Ready changed afterwards", "node %d: the MsgStorageAppend queued for the append thread is no longer what Ready handed out: now %s", n.ID, raft.VerifFmtMessage(m))
		}
		n.AppendDig = n.AppendDig[1:]
	}
	var hs *pb.HardState
	if m.Term != nil || m.Vote != nil || m.Commit != nil {
		hs = &pb.HardState{Term: new(m.GetTerm()), Vote: new(m.GetVote()), Commit: new(m.GetCommit())}
	}
	c.persist(n, m.GetSnapshot(), m.GetEntries(), hs, true)
	if !raft.IsEmptySnap(m.GetSnapshot()) {
		c.appRestore(n, m.GetSnapshot())
	}
	c.appSnapshotHousekeeping(n)
	for _, r := range m.GetResponses() {
		if !n.Alive || n.RN == nil {
			return
		}
		if r.GetTo() == n.ID {
			rr := cloneMsg(r)
			c.Mon.beforeStep(n, rr)
			err := n.Step(rr)
			c.Mon.afterStep(n, rr, err)
		} else {
			c.send(n, r)
		}
	}
}

// applyThread processes the oldest MsgStorageApply of node n.
func (c *Cluster) applyThread(n *Node) {
	if len(n.ApplyQ) == 0 || !n.Alive || n.RN == nil {
		return
	}
	m := n.ApplyQ[0]
	n.ApplyQ = n.ApplyQ[1:]
	if len(n.ApplyDig) > 0 {
		if d := fnv64(raft.VerifFmtMessage(m)); d != n.ApplyDig[0] {
			c.violate("*", "data handed out by Ready changed afterwards", "node %d: the MsgStorageApply queued for the apply thread is no longer what Ready handed out: now %s", n.ID, raft.VerifFmtMessage(m))
		}
		n.ApplyDig = n.ApplyDig[1:]
	}
	c.appApply(n, m.GetEntries())
	for _, r := range m.GetResponses() {
		if !n.Alive || n.RN == nil {
			return
		}
		rr := cloneMsg(r)
		c.Mon.beforeStep(n, rr)
		err := n.Step(rr)
		c.Mon.afterStep(n, rr, err)
	}
}

func (c *Cluster) crash(n *Node) {
	if !n.Alive {
		return
	}
	// unsynced writes (Readys with MustSync=false) reach the disk or not
	var lost *pb.HardState
	if n.SyncedHS != nil {
		if c.Spec == nil && c.Rng.Intn(2) == 0 {
			lost = n.SyncedHS
			c.Stats["crash_lost_unsynced"]++
		}
		n.SyncedHS = nil
	}
	c.trace("crash %d", n.ID)
	c.Stats["crash"]++
	c.Mon.onCrash(n)
	if c.Spec != nil {
		c.Spec.onCrash(n)
	}
	n.Crash()
	if lost != nil {
		n.StSetHardState(lost)
	}
}

// restart brings a crashed node back from its storage. The application recovers its state machine
// at a durable applied index in [snapshot index, min(applied, stored commit)] and serves the
// ConfState of that index through InitialState (DESIGN.md section 8).
func (c *Cluster) restart(n *Node) {
	if n.Alive {
		return
	}
	hs, _, _ := n.St.InitialState()
	snap, _ := n.St.Snapshot()
	li, _ := n.St.LastIndex()
	lo := snap.GetMetadata().GetIndex()
	hi := min(n.Applied, hs.GetCommit(), li)
	applied := lo
	if hi > lo {
		applied = lo + uint64(c.Rng.Int63n(int64(hi-lo+1)))
		if c.Rng.Intn(2) == 0 {
			applied = hi
		}
	}
	if applied > lo {
		if err := n.StCreateSnapshot(applied, n.confAtIndex(applied), nil); err != nil {
			applied = lo
		}
	}
	// the state machine is recovered at `applied`: forget configuration history beyond it (those entries
	// will be applied again) and make sure the stored snapshot's configuration is part of the history
	kept := n.ConfHist[:0]
	for _, h := range n.ConfHist {
		if h.Index <= applied {
			kept = append(kept, h)
		}
	}
	n.ConfHist = kept
	if snap2, _ := n.St.Snapshot(); snap2.GetMetadata().GetIndex() > 0 {
		si := snap2.GetMetadata().GetIndex()
		if len(n.ConfHist) == 0 || n.ConfHist[len(n.ConfHist)-1].Index < si {
			n.ConfHist = append(n.ConfHist, confAt{Index: si, CS: proto.Clone(snap2.GetMetadata().GetConfState()).(*pb.ConfState)})
		}
	}
	c.trace("restart %d applied=%d", n.ID, applied)
	c.Stats["restart"]++
	n.Panic = ""
	if n.Start(applied, true) {
		c.Mon.onStart(n)
		if c.Spec != nil {
			c.Spec.onStart(n)
		}
	}
}

// compact lets the application snapshot its state at some applied index and compact the log.
func (c *Cluster) compact(n *Node) {
	if !n.Alive || n.RN == nil {
		return
	}
	hs, _, _ := n.St.InitialState()
	snap, _ := n.St.Snapshot()
	li, _ := n.St.LastIndex()
	fi, _ := n.St.FirstIndex()
	hi := min(n.Applied, hs.GetCommit(), li)
	lo := max(snap.GetMetadata().GetIndex(), fi-1)
	if hi <= lo {
		return
	}
	i := lo + 1 + uint64(c.Rng.Int63n(int64(hi-lo)))
	c.trace("compact %d at %d", n.ID, i)
	c.fsync(n) // saving a snapshot syncs the log
	if err := n.StCreateSnapshot(i, n.confAtIndex(i), []byte(fmt.Sprintf("s%d", i))); err != nil {
		return
	}
	j := i
	if c.Rng.Intn(2) == 0 && i > fi {
		j = fi + uint64(c.Rng.Int63n(int64(i-fi+1)))
	}
	if j >= fi {
		n.StCompact(j)
	}
	c.Stats["compact"]++
}
