package sim

import (
	"fmt"
	"math/rand"

	"go.etcd.io/raft/v3"
	pb "go.etcd.io/raft/v3/raftpb"
	"google.golang.org/protobuf/proto"
)

// FuzzNode drives ONE RawNode started from a random (well-formed) storage through a random sequence of
// API calls and messages of every type with fields chosen around the node's current term and log.
// Its purpose is the correspondence only (tie X, node level): the Lean model must reproduce every
// output and state, including panics. No monitors run: the inputs are not restricted to what a
// contract-following environment would produce, so reaching e.g. a commit regression says nothing
// about the properties; what counts is that model and code agree.
// FuzzKeepText makes FuzzNode keep full texts (used when explaining a mismatch).
var FuzzKeepText bool

func FuzzNode(seed int64, steps int, idMul uint64) *Cluster {
	rng := rand.New(rand.NewSource(seed))
	o := Opts{Seed: seed, ElectionTick: []int{10, 5, 3}[rng.Intn(3)], MaxInflightMsgs: []int{1, 2, 4, 16, 64}[rng.Intn(5)],
		MaxSizePerMsg:             []uint64{0, 1, 40, 200, 1 << 20, ^uint64(0)}[rng.Intn(6)],
		MaxCommittedSizePerReady:  []uint64{0, 1, 30, 200}[rng.Intn(4)],
		MaxUncommittedEntriesSize: []uint64{0, 1, 30, 1000}[rng.Intn(4)],
		MaxInflightBytes:          []uint64{0, 0, 300, 120, 2000}[rng.Intn(5)],
		Async:                     rng.Intn(2) == 0, PreVote: []bool{rng.Intn(2) == 0}, CheckQuorum: []bool{rng.Intn(2) == 0},
		ReadOnlyLease: rng.Intn(6) == 0, DisableProposalForwarding: rng.Intn(6) == 0, StepDownOnRemoval: rng.Intn(2) == 0,
		BaseIndex: uint64(rng.Intn(4))}
	if rng.Intn(6) == 0 { // a log far into the index space (comparisons must not depend on small values)
		o.BaseIndex += 1 << 63
	}
	if o.MaxInflightBytes != 0 && o.MaxInflightBytes < o.MaxSizePerMsg {
		o.MaxInflightBytes = 0
	}
	c := &Cluster{O: o, Rng: rng, Nodes: map[uint64]*Node{}, Part: map[uint64]int{}, Rec: &Rec{Keep: FuzzKeepText},
		Stats: map[string]int{}, snapsInFlight: map[[2]uint64]bool{}}
	theDraws.rng = rand.New(rand.NewSource(seed ^ 0x5eed))
	c.Mon = newMonitor(c)
	c.Mon.off = true

	// random configuration and storage
	if idMul == 0 {
		idMul = 1
	}
	ids := []uint64{1 * idMul, 2 * idMul, 3 * idMul, 4 * idMul, 5 * idMul}
	me := ids[rng.Intn(3)]
	cs := &pb.ConfState{}
	for _, id := range ids {
		switch rng.Intn(5) {
		case 0, 1:
			cs.Voters = append(cs.Voters, id)
		case 2:
			cs.Learners = append(cs.Learners, id)
		}
	}
	if len(cs.Voters) == 0 {
		cs.Voters = []uint64{me}
	}
	soleIncoming := rng.Intn(10) == 0
	if soleIncoming { // the node is the only incoming voter (a group shrinking to one member, often still joint)
		cs.Voters, cs.Learners = []uint64{me}, nil
	}
	if rng.Intn(4) == 0 || (soleIncoming && rng.Intn(3) != 0) { // joint
		for _, id := range ids {
			if rng.Intn(2) == 0 && !containsID(cs.Learners, id) {
				cs.VotersOutgoing = append(cs.VotersOutgoing, id)
			}
		}
		if len(cs.VotersOutgoing) > 0 {
			cs.AutoLeave = new(rng.Intn(2) == 0)
			for _, id := range cs.VotersOutgoing {
				if !containsID(cs.Voters, id) && rng.Intn(2) == 0 {
					cs.LearnersNext = append(cs.LearnersNext, id)
				}
			}
		}
	}
	st := raft.NewMemoryStorage()
	base := o.BaseIndex
	bt := uint64(rng.Intn(3))
	if rng.Intn(8) == 0 {
		bt += 1 << 63
	}
	if base == 0 {
		bt = 0
	}
	if err := st.ApplySnapshot(&pb.Snapshot{Metadata: &pb.SnapshotMetadata{Index: new(base), Term: new(bt), ConfState: cs}}); err != nil {
		panic(err)
	}
	term := max(bt, 1)
	var ents []*pb.Entry
	k := rng.Intn(8)
	for i := 0; i < k; i++ {
		if rng.Intn(3) == 0 {
			term++
		}
		e := &pb.Entry{Term: new(term), Index: new(base + 1 + uint64(i))}
		switch rng.Intn(5) {
		case 0:
		case 1:
			e.Data = make([]byte, rng.Intn(60))
		default:
			e.Data = []byte(fmt.Sprintf("e%d", i))
		}
		if rng.Intn(6) == 0 {
			e.Type = pb.EntryNormal.Enum()
		}
		ents = append(ents, e)
	}
	st.Append(ents)
	last := base + uint64(k)
	if rng.Intn(4) != 0 {
		hs := &pb.HardState{Term: new(term + uint64(rng.Intn(2))), Vote: new(uint64(rng.Intn(4))), Commit: new(base + uint64(rng.Intn(k+1)))}
		st.SetHardState(hs)
	}
	n := &Node{ID: me, Cfg: c.nodeConfig(me, 0), St: st, AppliedEnts: map[uint64]string{}, rec: c.Rec, c: c, InitConf: cs}
	c.Nodes[me] = n
	c.IDs = []uint64{me}
	hs, _, _ := st.InitialState()
	applied := base
	if hs.GetCommit() > base && rng.Intn(2) == 0 {
		applied = base + uint64(rng.Int63n(int64(hs.GetCommit()-base+1)))
	}
	n.ForceApplied = rng.Intn(2) == 0
	if !n.Start(applied, false) {
		return c
	}
	_ = last
	// One run in three starts with an election that the node wins (the peers answer its requests with grants), so
	// that the leader-side paths (flow control, commit, reads, transfers, configuration changes) are fuzzed from
	// the start instead of only when random messages happen to elect it.
	if rng.Intn(3) == 0 || soleIncoming {
		drain := func() {
			for k := 0; k < 4 && n.Alive && n.RN != nil && n.HasReady(); k++ {
				c.processReady(n, 0)
				if o.Async {
					for len(n.AppendQ) > 0 && n.Alive {
						c.appendThread(n)
					}
					for len(n.ApplyQ) > 0 && n.Alive {
						c.applyThread(n)
					}
				}
				c.Net = nil
			}
		}
		n.Campaign()
		for round := 0; round < 3 && n.Alive && n.RN != nil; round++ {
			drain()
			if n.RN == nil || !n.Alive {
				break
			}
			bs := n.RN.BasicStatus()
			var ty pb.MessageType
			tm := bs.GetTerm()
			switch bs.RaftState {
			case raft.StatePreCandidate:
				ty, tm = pb.MsgPreVoteResp, tm+1
			case raft.StateCandidate:
				ty = pb.MsgVoteResp
			default:
				round = 3
				continue
			}
			for _, id := range ids {
				if id != me && n.Alive && n.RN != nil {
					n.Step(&pb.Message{Type: ty.Enum(), From: new(id), To: new(me), Term: new(tm)})
				}
			}
		}
		drain()
		if n.RN != nil && n.Alive && n.RN.BasicStatus().RaftState == raft.StateLeader {
			c.Stats["fuzz_started_as_leader"]++
		}
	}

	randEnts := func(prev, pterm uint64) []*pb.Entry {
		var es []*pb.Entry
		t := pterm
		for i, k := 0, rng.Intn(4); i < k; i++ {
			if rng.Intn(3) == 0 {
				t++
			}
			if t == 0 {
				t = 1
			}
			e := &pb.Entry{Term: new(t), Index: new(prev + 1 + uint64(i))}
			if rng.Intn(4) != 0 {
				e.Data = []byte(fmt.Sprintf("m%d", rng.Intn(100)))
			}
			if rng.Intn(10) == 0 {
				cc := &pb.ConfChangeV2{Changes: []*pb.ConfChangeSingle{{Type: pb.ConfChangeType(rng.Intn(4)).Enum(), NodeId: new(ids[rng.Intn(5)])}}}
				d, _ := proto.Marshal(cc)
				e.Type, e.Data = pb.EntryConfChangeV2.Enum(), d
			}
			es = append(es, e)
		}
		return es
	}
	for step := 0; step < steps && n.Alive && n.RN != nil; step++ {
		stt := n.RN.BasicStatus()
		lbase, lents := n.RN.VerifLogicalLog()
		llast := lbase + uint64(len(lents))
		pickIdx := func() uint64 {
			switch rng.Intn(6) {
			case 0:
				return 0
			case 1:
				return lbase
			case 2:
				return llast
			case 3:
				return llast + 1 + uint64(rng.Intn(2))
			case 4:
				return stt.GetCommit()
			}
			if llast >= lbase {
				return lbase + uint64(rng.Int63n(int64(llast-lbase+1)))
			}
			return lbase
		}
		termAt := func(i uint64) uint64 {
			if t, err := n.RN.VerifTerm(i); err == nil && rng.Intn(5) != 0 {
				return t
			}
			if tt := stt.GetTerm(); tt > 1<<40 { // huge terms: stay near the current one
				return tt - uint64(rng.Intn(3)) + uint64(rng.Intn(3))
			}
			return uint64(rng.Intn(int(stt.GetTerm()) + 2))
		}
		pickTerm := func() uint64 {
			t := stt.GetTerm()
			switch rng.Intn(7) {
			case 0:
				return 0
			case 1:
				if t > 0 {
					return t - 1
				}
			case 2:
				return t + 1
			case 3:
				return t + 2
			}
			return t
		}
		if soleIncoming && rng.Intn(12) == 0 { // reads at a node that is the only incoming voter
			n.ReadIndex([]byte(fmt.Sprintf("r%d", rng.Intn(5))))
			continue
		}
		switch r := rng.Intn(100); {
		case r < 45: // a message
			ty := pb.MessageType(rng.Intn(24))
			if rng.Intn(2) == 0 { // half of the messages: the types that carry the replication and election logic
				ty = []pb.MessageType{pb.MsgApp, pb.MsgApp, pb.MsgApp, pb.MsgAppResp, pb.MsgAppResp, pb.MsgSnap, pb.MsgSnap,
					pb.MsgHeartbeat, pb.MsgHeartbeatResp, pb.MsgHeartbeatResp, pb.MsgVote, pb.MsgVoteResp, pb.MsgPreVote,
					pb.MsgPreVoteResp, pb.MsgProp, pb.MsgReadIndex}[rng.Intn(16)]
			}
			from := ids[rng.Intn(5)]
			for from == me && rng.Intn(30) != 0 {
				from = ids[rng.Intn(5)]
			}
			if rng.Intn(20) == 0 {
				from = 6 * idMul // unknown peer
			}
			m := &pb.Message{Type: ty.Enum(), From: new(from), To: new(me), Term: new(pickTerm())}
			switch ty {
			case pb.MsgHup, pb.MsgBeat, pb.MsgCheckQuorum, pb.MsgUnreachable, pb.MsgSnapStatus, pb.MsgStorageAppend, pb.MsgStorageApply:
				// local messages through Step are refused with ErrStepLocalMsg; keep a few
				if rng.Intn(4) != 0 {
					continue
				}
			case pb.MsgStorageAppendResp, pb.MsgStorageApplyResp:
				continue // produced by the storage threads below
			}
			idx := pickIdx()
			m.Index = new(idx)
			m.LogTerm = new(termAt(idx))
			m.Commit = new(pickIdx())
			if rng.Intn(3) == 0 {
				m.Reject = new(true)
				m.RejectHint = new(pickIdx())
			}
			switch ty {
			case pb.MsgApp:
				m.Entries = randEnts(idx, m.GetLogTerm())
				if m.GetTerm() == 0 {
					m.Term = new(stt.GetTerm() + 1)
				}
				if c := idx + uint64(len(m.Entries)); m.GetCommit() > c && rng.Intn(3) != 0 {
					m.Commit = new(c)
				}
			case pb.MsgHeartbeat:
				if m.GetTerm() == 0 {
					m.Term = new(stt.GetTerm())
				}
				if m.GetCommit() > llast && rng.Intn(4) != 0 {
					m.Commit = new(llast)
				}
				if rng.Intn(3) == 0 {
					m.Context = []byte(fmt.Sprintf("r%d", rng.Intn(6)))
				}
			case pb.MsgSnap:
				si := pickIdx()
				scs := cs
				if c0 := stt.GetCommit(); rng.Intn(3) == 0 && llast > c0+1 {
					// aimed: a snapshot that lands inside the uncommitted tail with a term the log does not have there
					// (the tail is a stale suffix that the snapshot must replace, not keep)
					si = c0 + 1 + uint64(rng.Int63n(int64(llast-c0-1)))
					m.Term = new(max(stt.GetTerm(), 1))
				}
				if rng.Intn(3) == 0 {
					scs = &pb.ConfState{Voters: []uint64{ids[rng.Intn(5)], ids[rng.Intn(5)]}}
					if scs.Voters[0] == scs.Voters[1] {
						scs.Voters = scs.Voters[:1]
					}
				}
				st := termAt(si)
				if rng.Intn(3) == 0 {
					st++ // not the term the log holds at si
				}
				m.Snapshot = &pb.Snapshot{Metadata: &pb.SnapshotMetadata{Index: new(si), Term: new(st), ConfState: scs}}
				if m.GetTerm() == 0 {
					m.Term = new(stt.GetTerm())
				}
			case pb.MsgProp:
				m.Term = nil
				m.Entries = []*pb.Entry{{Data: []byte(fmt.Sprintf("f%d", rng.Intn(100)))}}
				if rng.Intn(3) == 0 {
					m.Entries = append(m.Entries, &pb.Entry{Data: make([]byte, rng.Intn(50))})
				}
			case pb.MsgReadIndex, pb.MsgReadIndexResp:
				m.Entries = []*pb.Entry{{Data: []byte(fmt.Sprintf("r%d", rng.Intn(6)))}}
				if ty == pb.MsgReadIndex {
					m.Term = nil
				}
			case pb.MsgHeartbeatResp:
				if rng.Intn(2) == 0 {
					m.Context = []byte(fmt.Sprintf("r%d", rng.Intn(6))) // the read contexts used below
				}
			case pb.MsgVote, pb.MsgPreVote:
				if rng.Intn(4) == 0 {
					m.Context = []byte("CampaignTransfer")
				}
				if m.GetTerm() == 0 && rng.Intn(30) != 0 {
					m.Term = new(stt.GetTerm() + uint64(rng.Intn(2)))
					if m.GetTerm() == 0 {
						m.Term = new(uint64(1))
					}
				}
			case pb.MsgVoteResp, pb.MsgPreVoteResp, pb.MsgAppResp:
				if m.GetTerm() == 0 && rng.Intn(30) != 0 {
					m.Term = new(max(stt.GetTerm(), 1))
				}
			case pb.MsgTransferLeader, pb.MsgForgetLeader:
				if rng.Intn(30) != 0 {
					m.Term = nil
				}
			case pb.MsgTimeoutNow:
				if rng.Intn(2) == 0 {
					m.Term = nil
				}
			}
			n.Step(cloneMsg(m))
		case r < 57:
			n.Tick()
		case r < 62:
			n.Campaign()
		case r < 66:
			if rng.Intn(2) == 0 { // payloads large enough to meet the byte limits
				n.Propose(append([]byte(fmt.Sprintf("p%d.", step)), make([]byte, rng.Intn(160))...))
			} else {
				n.Propose([]byte(fmt.Sprintf("p%d", step)))
			}
		case r < 69:
			n.ReadIndex([]byte(fmt.Sprintf("r%d", rng.Intn(5))))
		case r < 70 && rng.Intn(2) == 0:
			n.TransferLeader(ids[rng.Intn(5)])
		case r < 72:
			n.ReportUnreachable(ids[rng.Intn(5)])
		case r < 74:
			n.ReportSnapshot(ids[rng.Intn(5)], rng.Intn(2) == 0)
		case r < 75:
			n.ForgetLeader()
		case r < 77 && len(cs.VotersOutgoing) == 0:
			cc := &pb.ConfChangeV2{Changes: []*pb.ConfChangeSingle{{Type: pb.ConfChangeType(rng.Intn(4)).Enum(), NodeId: new(ids[rng.Intn(5)])}}}
			n.ProposeCC(cc)
		case r < 79:
			c.compact(n)
		default: // let the application make progress
			if !n.HasReady() {
				continue
			}
			c.processReady(n, 0)
			if o.Async {
				for len(n.AppendQ) > 0 && n.Alive && rng.Intn(3) != 0 {
					c.appendThread(n)
				}
				for len(n.ApplyQ) > 0 && n.Alive && rng.Intn(2) != 0 { // the apply thread lags more often than the append thread
					c.applyThread(n)
				}
			}
			c.Net = nil
		}
	}
	if n.Panic != "" {
		c.Stats["fuzz_panic: "+classifyPanic(n.Panic)]++
	} else {
		c.Stats["fuzz_survived"]++
	}
	return c
}
