package sim

import (
	"fmt"
	"sort"
	"strings"

	"go.etcd.io/raft/v3"
	pb "go.etcd.io/raft/v3/raftpb"
	"google.golang.org/protobuf/proto"
)

// SpecTracer abstracts every step of the real nodes and of the environment into actions of the
// abstract protocol `Spec/Raft.lean` (tie X, environment level). The Lean driver replays the actions
// with `step?` — each must be enabled — and compares the abstract state of the acting node after
// every implementation operation. Only used for runs with static membership and BaseIndex 0.
type SpecTracer struct {
	c     *Cluster
	Lines []string
	ghost  map[uint64][]sent // uncompacted ghost of each node's logical log
	dghost map[uint64][]sent // uncompacted ghost of each node's storage
	snapG  map[[2]uint64][]sent
	last   map[uint64]absNode
	nmsgs  map[uint64]int
	// a candidacy whose vote request has not left the node yet: where its `campaign` line stands, and its term.
	// Spec.sendReqVote is inserted right after that line when (and only if) a MsgVote of that term is handed to
	// the network; a candidate that crashes first never sent it.
	unsent map[uint64][]*unsentReq

	// R: the run has membership changes and is replayed through Spec/Reconf.lean (SpecR) instead: entries carry
	// the configuration they produce, every node has an applied index, `crash` names the applied index the node
	// restarts with. pfx is "sp" or "spr".
	R           bool
	pfx         string
	cfgOf       map[[2]uint64]string // (term, index) of a configuration entry -> "incoming/outgoing" it produces
	specApplied map[uint64]uint64    // the applied index SpecR has for each node
	crashLine   map[uint64]int       // index in Lines of the node's last `crash` line (its applied index is filled in at restart)
}

type unsentReq struct {
	pos  int // index in Lines just after the campaign line
	term uint64
}

type sent struct {
	term, val uint64
	cfg       string // SpecR: "incoming/outgoing" produced by a configuration entry, "" otherwise
}

type absNode struct {
	role   string
	term   uint64
	vote   uint64
	commit uint64
	last   uint64
}

func newSpecTracer(c *Cluster) *SpecTracer {
	t := &SpecTracer{c: c, ghost: map[uint64][]sent{}, dghost: map[uint64][]sent{}, snapG: map[[2]uint64][]sent{},
		last: map[uint64]absNode{}, nmsgs: map[uint64]int{}, unsent: map[uint64][]*unsentReq{}}
	t.R = c.O.SpecR
	t.pfx = "sp"
	if t.R {
		t.pfx = "spr"
		t.cfgOf, t.specApplied, t.crashLine = map[[2]uint64]string{}, map[uint64]uint64{}, map[uint64]int{}
	}
	vs := append([]uint64(nil), c.O.Voters...)
	sort.Slice(vs, func(i, j int) bool { return vs[i] < vs[j] })
	t.Lines = append(t.Lines, fmt.Sprintf("%s init %s -", t.pfx, tokIDs(vs)))
	return t
}

func entVal(e *pb.Entry) uint64 {
	ty := e.GetType()
	return fnv64(fmt.Sprintf("%d/%x", int32(ty), e.GetData())) % 2147483647
}

func (t *SpecTracer) emit(format string, a ...any) {
	t.Lines = append(t.Lines, t.pfx+" a "+fmt.Sprintf(format, a...))
}

func roleOf(s raft.StateType) string {
	switch s {
	case raft.StateLeader:
		return "L"
	case raft.StateCandidate:
		return "C"
	}
	return "F"
}

func cfgHash(cfg string) uint64 {
	if cfg == "" {
		return 0
	}
	halves := strings.SplitN(cfg, "/", 2)
	fold := func(s string, h uint64) uint64 {
		if s == "" || s == "-" {
			return h
		}
		for _, x := range strings.Split(s, ",") {
			var v uint64
			fmt.Sscan(x, &v)
			h = (h*31 + v + 1) % 2147483647
		}
		return h
	}
	return fold(halves[0], 17)*1009 + fold(halves[1], 19)
}

// logHash: the order-sensitive hash of a ghost log that Spec/Check.lean resp. Spec/ReconfCheck.lean compute
func logHash(l []sent) uint64 {
	h := uint64(0)
	for _, e := range l {
		h = (h*1000003 + (e.term*131+e.val+7+cfgHash(e.cfg))%2147483647) % 2147483647
	}
	return h
}

func tokEnt(e sent) string {
	if e.cfg != "" {
		return fmt.Sprintf("%d:%d:%s", e.term, e.val, e.cfg)
	}
	return fmt.Sprintf("%d:%d", e.term, e.val)
}

func tokLog(l []sent) string {
	var sb strings.Builder
	fmt.Fprintf(&sb, "%d", len(l))
	for _, e := range l {
		sb.WriteByte(' ')
		sb.WriteString(tokEnt(e))
	}
	return sb.String()
}

// rebuild the ghost of a log given the retained prefix below `base`.
func (t *SpecTracer) rebuild(old []sent, base uint64, ents []*pb.Entry) []sent {
	g := make([]sent, 0, int(base)+len(ents))
	for i := uint64(0); i < base; i++ {
		if i < uint64(len(old)) {
			g = append(g, old[i])
		} else {
			g = append(g, sent{}) // unknown prefix: will show up as a mismatch
		}
	}
	for _, e := range ents {
		g = append(g, t.sentOf(e))
	}
	return g
}

// sentOf: the ghost of a real entry (SpecR: with the configuration it produces, recorded when its leader created it)
func (t *SpecTracer) sentOf(e *pb.Entry) sent {
	s := sent{term: e.GetTerm(), val: entVal(e)}
	if t.R {
		s.cfg = t.cfgOf[[2]uint64{e.GetTerm(), e.GetIndex()}]
	}
	return s
}

// cfgText: "incoming/outgoing" of a configuration, ids ascending, "-" for an empty half
func cfgText(cs *pb.ConfState) string {
	srt := func(x []uint64) []uint64 {
		y := append([]uint64(nil), x...)
		sort.Slice(y, func(i, j int) bool { return y[i] < y[j] })
		return y
	}
	return tokIDs(srt(cs.GetVoters())) + "/" + tokIDs(srt(cs.GetVotersOutgoing()))
}

func (t *SpecTracer) refreshDur(n *Node) {
	se := storageEnts(n.St)
	base := se[0].GetIndex()
	old := t.dghost[n.ID]
	if uint64(len(old)) < base {
		// storage was reset by a snapshot beyond what it held: take the snapshot's ghost prefix
		if g, ok := t.snapG[[2]uint64{base, se[0].GetTerm()}]; ok {
			old = g
		}
	} else if base > 0 && old[base-1].term != se[0].GetTerm() {
		if g, ok := t.snapG[[2]uint64{base, se[0].GetTerm()}]; ok {
			old = g
		}
	}
	t.dghost[n.ID] = t.rebuild(old, base, se[1:])
}

func (t *SpecTracer) cmp(n *Node) {
	hs, _, _ := n.St.InitialState()
	dg := t.dghost[n.ID]
	dur := fmt.Sprintf("%d %d %d %d %d", hs.GetTerm(), hs.GetVote(), hs.GetCommit(), len(dg), logHash(dg))
	if n.RN == nil || !n.Alive {
		t.Lines = append(t.Lines, fmt.Sprintf("%s cmpd %d %s", t.pfx, n.ID, dur))
		return
	}
	a := t.last[n.ID]
	g := t.ghost[n.ID]
	line := fmt.Sprintf("%s cmp %d %s %d %d %d %d %d d %s p %d", t.pfx, n.ID, a.role, a.term, a.vote, a.commit,
		len(g), logHash(g), dur, len(n.AppendQ)+t.syncPending(n))
	if t.R {
		// the applied index SpecR has for the node, and the node's ACTIVE configuration (which SpecR derives from
		// the configuration entries up to that index)
		line += fmt.Sprintf(" a %d c %s", t.specApplied[n.ID], cfgText(n.RN.VerifConfState()))
	}
	t.Lines = append(t.Lines, line)
}

func (t *SpecTracer) syncPending(n *Node) int { return 0 }

func (t *SpecTracer) abs(n *Node) (absNode, uint64, []*pb.Entry) {
	st := n.RN.BasicStatus()
	base, ents := n.RN.VerifLogicalLog()
	return absNode{role: roleOf(st.RaftState), term: st.GetTerm(), vote: st.GetVote(), commit: st.GetCommit(),
		last: base + uint64(len(ents))}, base, ents
}

func (t *SpecTracer) onStart(n *Node) {
	if n.RN == nil {
		return
	}
	a, base, ents := t.abs(n)
	if t.R {
		ap := n.RN.BasicStatus().Applied
		if k, ok := t.crashLine[n.ID]; ok { // the restart chose the applied index: SpecR's crash action names it
			t.Lines[k] = fmt.Sprintf("spr a crash %d %d", n.ID, ap)
			t.c.Stats["specr_restarts"]++
			delete(t.crashLine, n.ID)
		}
		t.specApplied[n.ID] = ap
	}
	t.refreshDur(n)
	// after a restart the logical log is the storage
	t.ghost[n.ID] = t.rebuild(t.dghost[n.ID], base, ents)
	t.last[n.ID] = a
	t.nmsgs[n.ID] = 0
	t.cmp(n)
}

func ids(m map[uint64]bool) string {
	var s []uint64
	for k, v := range m {
		if v {
			s = append(s, k)
		}
	}
	sort.Slice(s, func(i, j int) bool { return s[i] < s[j] })
	return tokIDs(s)
}

// afterOp: called after every successful call into live node n. msg is the stepped message (or nil).
func (t *SpecTracer) afterOp(n *Node, op string, msg *pb.Message) {
	if strings.HasPrefix(op, "st-") {
		return // storage writes are compared when the batch is complete (onPersist)
	}
	pre := t.last[n.ID]
	post, base, ents := t.abs(n)
	oldGhost := t.ghost[n.ID]
	id := n.ID
	if t.R && n.Applied > t.specApplied[id] && n.Applied <= pre.commit {
		// the application has applied further entries (for a configuration entry: ApplyConfChange is this very call)
		t.emit("applyTo %d %d", id, n.Applied)
		t.c.Stats["specr_applyTo"]++
		t.specApplied[id] = n.Applied
	}

	// --- term / vote / role going up
	if post.term > pre.term {
		if post.role == "C" && post.vote == id && post.term == pre.term+1 {
			t.emit("campaign %d", id)
			t.unsent[id] = append(t.unsent[id], &unsentReq{pos: len(t.Lines), term: post.term})
		} else {
			t.emit("updateTerm %d %d", id, post.term)
			pre.role, pre.vote = "F", 0
		}
		pre.term = post.term
		if post.role == "C" {
			pre.role, pre.vote = "C", id
		}
	}
	if post.vote != pre.vote && post.vote != 0 && msg != nil && msg.GetType() == pb.MsgVote {
		t.emit("grant %d %d %d %d", id, post.vote, msg.GetLogTerm(), msg.GetIndex())
		pre.vote = post.vote
	}
	if pre.role == "C" && post.role == "L" {
		// the quorum: the node itself plus every voter whose grant for this term was released
		q := map[uint64]bool{id: true}
		for k, cand := range t.c.Mon.grants {
			if k[0] == post.term && cand == id && t.c.Mon.wireGrant[k] {
				q[k[1]] = true
			}
		}
		t.emit("becomeLeader %d %s", id, ids(q))
		pre.role = "L"
	}

	// --- log
	handled := false
	if msg != nil && msg.GetTerm() == post.term && post.role != "L" {
		switch msg.GetType() {
		case pb.MsgApp:
			if msg.GetIndex() < pre.commit {
				t.emit("ackCommit %d %d", id, msg.GetTerm())
			} else {
				var sb strings.Builder
				for _, e := range msg.GetEntries() {
					sb.WriteByte(' ')
					sb.WriteString(tokEnt(t.sentOf(e)))
				}
				t.emit("handleApp %d %d %d %d %d %d%s", id, msg.GetTerm(), msg.GetIndex(), msg.GetLogTerm(), msg.GetCommit(),
					len(msg.GetEntries()), sb.String())
			}
			handled = true
		case pb.MsgHeartbeat:
			t.emit("handleHb %d %d %d", id, msg.GetTerm(), msg.GetCommit())
			handled = true
		case pb.MsgSnap:
			s := msg.GetSnapshot().GetMetadata()
			g, ok := t.snapG[[2]uint64{s.GetIndex(), s.GetTerm()}]
			if !ok {
				g = nil
			}
			installed := base == s.GetIndex() && len(ents) == 0 && post.commit == s.GetIndex() && (pre.last != post.last || pre.commit != post.commit)
			if s.GetIndex() > pre.commit && post.commit == pre.commit && !installed {
				// refused: the receiver is not part of the snapshot's configuration (`restore` returns false); it only
				// answers with its commit index
				t.emit("ackCommit %d %d", id, msg.GetTerm())
				handled = true
				break
			}
			t.emit("handleSnap %d %d %s", id, msg.GetTerm(), tokLog(g))
			if installed && (uint64(len(oldGhost)) < s.GetIndex() || !sameLog(oldGhost[:s.GetIndex()], g)) {
				oldGhost = g
				if t.R { // the snapshot replaces the log: the configuration switches at once (SpecR: applied := index)
					t.specApplied[id] = s.GetIndex()
				}
			} else {
				// ignored or fast-forwarded: the implementation answers with its commit index
				t.emit("ackCommit %d %d", id, msg.GetTerm())
			}
			handled = true
		}
	}
	newGhost := t.rebuild(oldGhost, base, ents)
	if post.role == "L" && !handled {
		// a leader only appends entries of its own term
		for i := pre.last; i < post.last; i++ {
			if i >= uint64(len(newGhost)) {
				continue
			}
			if t.R && i >= base && i-base < uint64(len(ents)) {
				// a configuration entry carries the configuration it produces, computed — independently of the
				// library's Changer — from the leader's active configuration (it has nothing unapplied above it)
				if e := ents[i-base]; e.GetType() == pb.EntryConfChange || e.GetType() == pb.EntryConfChangeV2 {
					var v2 *pb.ConfChangeV2
					if e.GetType() == pb.EntryConfChange {
						var cc pb.ConfChange
						proto.Unmarshal(e.GetData(), &cc)
						v2 = cc.AsV2()
					} else {
						v2 = &pb.ConfChangeV2{}
						proto.Unmarshal(e.GetData(), v2)
					}
					cfg := cfgText(foldConf(n.RN.VerifConfState(), v2))
					t.cfgOf[[2]uint64{e.GetTerm(), e.GetIndex()}] = cfg
					newGhost[i].cfg = cfg
					halves := strings.SplitN(cfg, "/", 2)
					t.emit("leaderAppendCfg %d %d %s %s", id, newGhost[i].val, halves[0], halves[1])
					t.c.Stats["specr_cfg_entries"]++
					continue
				}
			}
			t.emit("leaderAppend %d %d", id, newGhost[i].val)
		}
	}
	t.ghost[id] = newGhost

	// --- commit (leaders; followers' commit moves inside handleApp/handleHb/handleSnap)
	emitCommit := func(c uint64) {
		q := map[uint64]bool{}
		for pid, pr := range n.RN.Status().Progress {
			if pr.Match >= c {
				q[pid] = true
			}
		}
		t.emit("leaderCommit %d %d %s", id, c, ids(q))
	}
	curCommit := pre.commit
	if post.role == "L" && post.commit > pre.commit && !t.R {
		emitCommit(post.commit)
		curCommit = post.commit
	}

	// --- messages created by this operation (creation time = send time in the abstract protocol)
	vi := n.RN.VerifInfo()
	start := t.nmsgs[id]
	if op == "ready" {
		start = len(vi.PendingMsgs)
	}
	if start > len(vi.PendingMsgs) {
		start = len(vi.PendingMsgs)
	}
	for _, m := range vi.PendingMsgs[start:] {
		switch m.GetType() {
		case pb.MsgApp:
			if t.R && post.role == "L" && m.GetCommit() > curCommit && m.GetCommit() <= post.commit {
				// SpecR's sendApp carries exactly the leader's commit index: one call may advance the commit index in
				// several steps (one self-acknowledgement per entry) and send an append after each
				emitCommit(m.GetCommit())
				curCommit = m.GetCommit()
			}
			t.emit("sendApp %d %d %d %d", id, m.GetIndex(), len(m.GetEntries()), m.GetCommit())
		case pb.MsgHeartbeat:
			if t.R && post.role == "L" && m.GetCommit() > curCommit && post.commit > curCommit {
				emitCommit(post.commit) // (R mode defers leaderCommit to the appends; a heartbeat needs it now)
				curCommit = post.commit
			}
			t.emit("sendHb %d %d %d", id, m.GetTo(), m.GetCommit())
		case pb.MsgSnap:
			s := m.GetSnapshot().GetMetadata()
			g := t.ghost[id]
			if uint64(len(g)) >= s.GetIndex() {
				t.snapG[[2]uint64{s.GetIndex(), s.GetTerm()}] = append([]sent(nil), g[:s.GetIndex()]...)
			}
			t.emit("sendSnap %d %d", id, s.GetIndex())
		}
	}
	t.nmsgs[id] = len(vi.PendingMsgs)
	if t.R && post.role == "L" && post.commit > curCommit {
		emitCommit(post.commit)
	}

	// --- stepping down within a term
	if (pre.role == "L" || pre.role == "C") && post.role == "F" && !handled {
		t.emit("stepDown %d", id)
	}
	t.last[id] = post
	t.cmp(n)
}

func sameLog(a, b []sent) bool {
	if len(a) != len(b) {
		return false
	}
	for i := range a {
		if a[i] != b[i] {
			return false
		}
	}
	return true
}

// onWrite: the node handed its current volatile version to the storage thread.
func (t *SpecTracer) onWrite(n *Node) {
	t.emit("write %d", n.ID)
}

// onPersist: the storage thread made the oldest handed-out version durable.
func (t *SpecTracer) onPersist(n *Node) {
	t.emit("persist %d", n.ID)
	t.refreshDur(n)
	t.cmp(n)
}

func (t *SpecTracer) onCrash(n *Node) {
	if t.R {
		t.emit("crash %d 0", n.ID) // the applied index is filled in when (if) the node restarts
		t.crashLine[n.ID] = len(t.Lines) - 1
		t.specApplied[n.ID] = 0
	} else {
		t.emit("crash %d", n.ID)
	}
	delete(t.unsent, n.ID)
}

// onSend: a message is handed to the network (promises are checked here).
func (t *SpecTracer) onSend(from *Node, m *pb.Message) {
	switch m.GetType() {
	case pb.MsgVote:
		// the request of the candidacy of that term leaves the node (a node may have campaigned again before its
		// earlier requests were handed out: every term keeps its own record)
		for k, u := range t.unsent[from.ID] {
			if u.term != m.GetTerm() {
				continue
			}
			line := fmt.Sprintf("%s a sendReqVote %d", t.pfx, from.ID)
			t.Lines = append(t.Lines[:u.pos], append([]string{line}, t.Lines[u.pos:]...)...)
			for k, v := range t.crashLine {
				if v >= u.pos {
					t.crashLine[k] = v + 1
				}
			}
			for _, us := range t.unsent {
				for _, o := range us {
					if o != u && o.pos >= u.pos {
						o.pos++
					}
				}
			}
			t.unsent[from.ID] = append(t.unsent[from.ID][:k:k], t.unsent[from.ID][k+1:]...)
			break
		}
	case pb.MsgVoteResp:
		if !m.GetReject() {
			t.emit("sendVote %d %d %d", from.ID, m.GetTerm(), m.GetTo())
		}
	case pb.MsgAppResp:
		if !m.GetReject() {
			t.emit("sendAck %d %d %d", from.ID, m.GetTerm(), m.GetIndex())
		}
	}
}

