package sim

import (
	"fmt"
	"strconv"
	"strings"

	pb "go.etcd.io/raft/v3/raftpb"
)

// Scripted schedules: Opts.Script, when non-empty, replaces the random scheduler. One environment
// action per element; the same monitors and the same model comparison apply. Used for the corpus of
// past findings, for hand-built hard states (C15) and for demonstrations of seeded changes.
//
//	campaign N | tick N [k] | ready N | readyall N | append N | appendall N | apply N | applyall N
//	deliver TYPE FROM TO | deliverall | drop TYPE FROM TO | dropall | dup TYPE FROM TO
//	propose N DATA | readindex N CTX | crash N | crashready N K | restart N [APPLIED] | compact N
//	transfer N TO | forget N | cc N v1|v2 CHANGES [auto|implicit|explicit] | snapstatus N TO ok|fail
//	unreachable N TO | partition A,B|C,D | heal | settle | converge
func (c *Cluster) runScript() {
	for i, line := range c.O.Script {
		c.StepN = i
		if c.fatal() {
			return
		}
		c.trace("script: %s", line)
		if err := c.scriptStep(strings.Fields(line)); err != nil {
			c.violate("SCRIPT", "script error", "line %d %q: %v", i, line, err)
			return
		}
	}
}

func (c *Cluster) node(s string) (*Node, error) {
	id, err := strconv.ParseUint(s, 10, 64)
	if err != nil {
		return nil, err
	}
	n := c.Nodes[id]
	if n == nil {
		return nil, fmt.Errorf("no node %d", id)
	}
	return n, nil
}

func msgTypeByName(s string) (pb.MessageType, bool) {
	if s == "*" {
		return 0, false
	}
	if v, ok := pb.MessageType_value[s]; ok {
		return pb.MessageType(v), true
	}
	return 0, false
}

func (c *Cluster) findMsg(f []string) int {
	ty, typed := msgTypeByName(f[0])
	from, _ := strconv.ParseUint(f[1], 10, 64)
	to, _ := strconv.ParseUint(f[2], 10, 64)
	for k, nm := range c.Net {
		if typed && nm.m.GetType() != ty {
			continue
		}
		if f[1] != "*" && nm.from != from {
			continue
		}
		if f[2] != "*" && nm.m.GetTo() != to {
			continue
		}
		return k
	}
	return -1
}

func (c *Cluster) scriptStep(f []string) error {
	if len(f) == 0 {
		return nil
	}
	live := func(n *Node) bool { return n.Alive && n.RN != nil }
	switch f[0] {
	case "campaign":
		n, err := c.node(f[1])
		if err != nil {
			return err
		}
		if live(n) {
			n.Campaign()
		}
	case "tick":
		n, err := c.node(f[1])
		if err != nil {
			return err
		}
		k := 1
		if len(f) > 2 {
			k, _ = strconv.Atoi(f[2])
		}
		for i := 0; i < k && live(n); i++ {
			n.Tick()
			c.Mon.afterTick(n)
		}
	case "ready":
		n, err := c.node(f[1])
		if err != nil {
			return err
		}
		c.processReady(n, 0)
	case "crashready":
		n, err := c.node(f[1])
		if err != nil {
			return err
		}
		k, _ := strconv.Atoi(f[2])
		c.processReady(n, k)
	case "readyall":
		n, err := c.node(f[1])
		if err != nil {
			return err
		}
		for i := 0; i < 50 && live(n) && n.RN.HasReady(); i++ {
			c.processReady(n, 0)
		}
	case "append":
		n, err := c.node(f[1])
		if err != nil {
			return err
		}
		c.appendThread(n)
	case "appendall":
		n, err := c.node(f[1])
		if err != nil {
			return err
		}
		for len(n.AppendQ) > 0 && live(n) {
			c.appendThread(n)
		}
	case "apply":
		n, err := c.node(f[1])
		if err != nil {
			return err
		}
		c.applyThread(n)
	case "applyall":
		n, err := c.node(f[1])
		if err != nil {
			return err
		}
		for len(n.ApplyQ) > 0 && live(n) {
			c.applyThread(n)
		}
	case "deliver", "drop", "dup":
		if len(f) < 4 {
			return fmt.Errorf("need TYPE FROM TO")
		}
		k := c.findMsg(f[1:])
		if k < 0 {
			// not an error: after a repair the history a corpus script was written for no longer unfolds
			c.Stats["script_msg_absent"]++
			return nil
		}
		switch f[0] {
		case "deliver":
			c.deliver(k, true)
		case "dup":
			c.deliver(k, false)
		default:
			c.Net = append(c.Net[:k], c.Net[k+1:]...)
		}
	case "deliverall":
		for i := 0; i < 1000 && len(c.Net) > 0 && !c.fatal(); i++ {
			c.deliver(0, true)
		}
	case "dropall":
		c.Net = nil
	case "propose":
		n, err := c.node(f[1])
		if err != nil {
			return err
		}
		if live(n) {
			data := []byte(f[2])
			c.Mon.beforePropose(n, data)
			e := n.Propose(data)
			c.Mon.afterPropose(n, data, e)
		}
	case "readindex":
		n, err := c.node(f[1])
		if err != nil {
			return err
		}
		if live(n) {
			c.Mon.onReadIssued(n, []byte(f[2]))
			n.ReadIndex([]byte(f[2]))
		}
	case "crash":
		n, err := c.node(f[1])
		if err != nil {
			return err
		}
		c.crash(n)
	case "restart":
		n, err := c.node(f[1])
		if err != nil {
			return err
		}
		c.restart(n)
	case "compact":
		n, err := c.node(f[1])
		if err != nil {
			return err
		}
		c.compact(n)
	case "transfer":
		n, err := c.node(f[1])
		if err != nil {
			return err
		}
		to, _ := strconv.ParseUint(f[2], 10, 64)
		if live(n) {
			c.Mon.onTransferRequest(n, to)
			n.TransferLeader(to)
		}
	case "forget":
		n, err := c.node(f[1])
		if err != nil {
			return err
		}
		if live(n) {
			n.ForgetLeader()
		}
	case "unreachable":
		n, err := c.node(f[1])
		if err != nil {
			return err
		}
		to, _ := strconv.ParseUint(f[2], 10, 64)
		if live(n) {
			n.ReportUnreachable(to)
		}
	case "snapstatus":
		n, err := c.node(f[1])
		if err != nil {
			return err
		}
		to, _ := strconv.ParseUint(f[2], 10, 64)
		if live(n) {
			n.ReportSnapshot(to, f[3] == "fail")
		}
	case "cc":
		n, err := c.node(f[1])
		if err != nil {
			return err
		}
		changes, err := pb.ConfChangesFromString(strings.ReplaceAll(f[3], ",", " "))
		if err != nil {
			return err
		}
		var cc pb.ConfChangeI
		if f[2] == "v1" {
			cc = &pb.ConfChange{Type: changes[0].GetType().Enum(), NodeId: new(changes[0].GetNodeId())}
		} else {
			tr := pb.ConfChangeTransitionAuto
			if len(f) > 4 {
				switch f[4] {
				case "implicit":
					tr = pb.ConfChangeTransitionJointImplicit
				case "explicit":
					tr = pb.ConfChangeTransitionJointExplicit
				}
			}
			if f[3] == "-" {
				changes = nil
			}
			cc = &pb.ConfChangeV2{Transition: tr.Enum(), Changes: changes}
		}
		for _, ch := range changes {
			if ch.GetNodeId() >= c.nextID {
				c.nextID = ch.GetNodeId() + 1
			}
		}
		if live(n) {
			c.Mon.beforeProposeCC(n, cc)
			e := n.ProposeCC(cc)
			c.Mon.afterProposeCC(n, cc, e)
		}
	case "partition":
		c.Part = map[uint64]int{}
		for g, grp := range strings.Split(f[1], "|") {
			for _, s := range strings.Split(grp, ",") {
				id, _ := strconv.ParseUint(s, 10, 64)
				c.Part[id] = g
			}
		}
	case "heal":
		c.Part = map[uint64]int{}
	case "settle":
		c.settle()
	case "converge":
		if c.O.Converge == 0 {
			c.O.Converge = 10
		}
		c.converge()
	default:
		return fmt.Errorf("unknown command %q", f[0])
	}
	return nil
}

// settle drains Ready, storage threads and the network without ticking.
func (c *Cluster) settle() {
	for k := 0; k < 300 && !c.fatal(); k++ {
		busy := false
		for _, n := range c.alive() {
			if n.RN.HasReady() {
				c.processReady(n, 0)
				busy = true
			}
			for len(n.AppendQ) > 0 && n.Alive {
				c.appendThread(n)
				busy = true
			}
			for len(n.ApplyQ) > 0 && n.Alive {
				c.applyThread(n)
				busy = true
			}
		}
		for len(c.Net) > 0 && !c.fatal() {
			c.deliver(0, true)
			busy = true
		}
		if !busy {
			return
		}
	}
}
