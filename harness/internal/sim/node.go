package sim

import (
	crand "crypto/rand"
	"fmt"
	"io"
	"log"
	"math/rand"
	"strings"

	"go.etcd.io/raft/v3"
	pb "go.etcd.io/raft/v3/raftpb"
)

// drawReader replaces crypto/rand.Reader: every byte it hands out is an election-timeout draw
// (uniform in [0, n) where n is the ElectionTick of the node being called) and is recorded.
type drawReader struct {
	rng   *rand.Rand
	n     int
	draws []int
}

func (d *drawReader) Read(p []byte) (int, error) {
	for i := range p {
		b := d.rng.Intn(d.n)
		p[i] = byte(b)
		d.draws = append(d.draws, b)
	}
	return len(p), nil
}

var theDraws = &drawReader{rng: rand.New(rand.NewSource(1)), n: 10}

func init() { crand.Reader = theDraws }

// Rec records the per-node operation stream (tie X, node level): the protocol line, and the
// implementation's output / state text for that line.
type Rec struct {
	Lines  []string
	Outs   []string
	States []string
	Keep   bool // keep full texts (else only digests are kept in Outs/States)
}

func (r *Rec) add(line, out, state string) {
	r.Lines = append(r.Lines, line)
	if r.Keep {
		r.Outs = append(r.Outs, out)
		r.States = append(r.States, state)
	} else {
		r.Outs = append(r.Outs, hex64(fnv64(out)))
		r.States = append(r.States, hex64(fnv64(state)))
	}
}

// Node is one raft member together with the application around it (storage, storage threads,
// state machine), following the documented contract.
type Node struct {
	ID    uint64
	Cfg   raft.Config // template (Storage, Applied filled in at start)
	RN    *raft.RawNode
	St    *raft.MemoryStorage
	Alive bool
	Inc   int // incarnation number
	Panic string
	// Removed: stopped for good because the committed configuration no longer contains it
	Removed bool
	// ForceApplied: pass Config.Applied also on the first start (node fuzzing from an arbitrary storage)
	ForceApplied bool

	// async storage threads
	AppendQ []*pb.Message
	ApplyQ  []*pb.Message
	// digests of the queued messages as they were when Ready handed them out: what a Ready hands out must not change
	// afterwards (slices aliasing the node's live log would)
	AppendDig []uint64
	ApplyDig  []uint64

	// application state machine
	Applied     uint64            // last applied index
	AppliedEnts map[uint64]string // index -> entry text, for entries applied by this node (all incarnations)
	ConfHist    []confAt          // ConfState after applying a conf change (or snapshot) at Index
	InitConf    *pb.ConfState

	// Writes of Readys with MustSync=false sit in the OS cache until the next synced write: SyncedHS is the
	// HardState as of the last sync while such writes are outstanding (nil = everything is synced),
	// SyncedLast the storage's last index at the last sync. A crash may lose them.
	SyncedHS   *pb.HardState
	SyncedLast uint64

	// per-incarnation apply cursor (C08)
	NextApply uint64

	rec *Rec
	c   *Cluster
	// message being stepped (for the abstract-protocol tracer)
	stepping *pb.Message
}

type confAt struct {
	Index uint64
	CS    *pb.ConfState
}

var quietLogger = &raft.DefaultLogger{Logger: log.New(io.Discard, "", 0)}

func (n *Node) confAtIndex(i uint64) *pb.ConfState {
	cs := n.InitConf
	for _, c := range n.ConfHist {
		if c.Index <= i {
			cs = c.CS
		}
	}
	return cs
}

// call runs f (a call into the RawNode) with panic recovery and draw recording, and records the line.
func (n *Node) call(op string, f func() string) (out string, panicked bool) {
	theDraws.n = n.Cfg.ElectionTick
	theDraws.draws = theDraws.draws[:0]
	live := n.RN != nil
	if live {
		n.c.Mon.snapshotCtx(n)
	}
	func() {
		defer func() {
			if r := recover(); r != nil {
				out = "panic"
				panicked = true
				n.Panic = fmt.Sprint(r)
			}
		}()
		out = f()
	}()
	line := fmt.Sprintf("n %d %s", n.ID, op)
	if len(theDraws.draws) > 0 {
		p := make([]string, len(theDraws.draws))
		for i, d := range theDraws.draws {
			p[i] = fmt.Sprint(d)
		}
		line += " d=" + strings.Join(p, ",")
	}
	var state string
	if panicked {
		n.Alive = false
		n.RN = nil
		n.c.onPanic(n, op)
		state = "dead sto: " + raft.VerifFmtStorage(n.St)
	} else if n.RN != nil {
		state = n.RN.VerifState()
	} else {
		state = "dead sto: " + raft.VerifFmtStorage(n.St)
	}
	n.rec.add(line, out, state)
	if live && !panicked {
		n.c.Mon.afterCall(n, op)
		if n.c.Spec != nil {
			n.c.Spec.afterOp(n, strings.Fields(op)[0], n.stepping)
		}
	}
	return out, panicked
}

func errText(err error) string {
	switch err {
	case nil:
		return "err=-"
	case raft.ErrProposalDropped:
		return "err=ErrProposalDropped"
	case raft.ErrStepLocalMsg:
		return "err=ErrStepLocalMsg"
	case raft.ErrStepPeerNotFound:
		return "err=ErrStepPeerNotFound"
	}
	return "err=" + err.Error()
}

// Start creates the RawNode from the node's storage (first start or restart).
func (n *Node) Start(applied uint64, restart bool) bool {
	cfg := n.Cfg
	cfg.Storage = n.St
	cfg.Applied = applied
	if !restart && !n.ForceApplied {
		// Config.Applied "should only be set when restarting raft"
		cfg.Applied = 0
	}
	cfg.Logger = quietLogger
	n.Inc++
	n.AppendQ, n.ApplyQ = nil, nil
	n.AppendDig, n.ApplyDig = nil, nil
	n.Applied = applied
	n.NextApply = applied + 1
	op := "restart " + tokConfig(&cfg)
	if !restart {
		op = "new " + tokConfig(&cfg) + " sto " + tokStorage(n.St)
	}
	n.Alive = true
	_, p := n.call(op, func() string {
		rn, err := raft.NewRawNode(&cfg)
		if err != nil {
			panic(err)
		}
		n.RN = rn
		return "ok"
	})
	return !p
}

func (n *Node) Tick() { n.call("tick", func() string { n.RN.Tick(); return "ok" }) }

func (n *Node) Campaign() {
	n.call("campaign", func() string { return errText(n.RN.Campaign()) })
}

func (n *Node) Propose(data []byte) error {
	var err error
	n.call("propose "+raft.VerifFmtBytes(data), func() string { err = n.RN.Propose(data); return errText(err) })
	return err
}

// ProposeCC proposes a configuration change given its entry type and marshalled bytes.
func (n *Node) ProposeCC(cc pb.ConfChangeI) error {
	typ, data, _ := pb.MarshalConfChange(cc)
	var err error
	n.call(fmt.Sprintf("proposecc %d %s", int32(typ), raft.VerifFmtBytes(data)), func() string {
		err = n.RN.ProposeConfChange(cc)
		return errText(err)
	})
	return err
}

func (n *Node) Step(m *pb.Message) error {
	var sb strings.Builder
	sb.WriteString("step ")
	tokMsg(&sb, m)
	var err error
	n.stepping = m
	n.call(sb.String(), func() string { err = n.RN.Step(m); return errText(err) })
	n.stepping = nil
	return err
}

func (n *Node) Ready() (rd raft.Ready, ok bool) {
	_, p := n.call("ready", func() string { rd = n.RN.Ready(); return raft.VerifFmtReady(rd) })
	return rd, !p
}

func (n *Node) HasReady() bool {
	var b bool
	n.call("hasready", func() string { b = n.RN.HasReady(); return fmt.Sprint(b2i(b)) })
	return b
}

func (n *Node) Advance() { n.call("advance", func() string { n.RN.Advance(raft.Ready{}); return "ok" }) }

func (n *Node) ApplyCC(v1 bool, data []byte, cc pb.ConfChangeI) *pb.ConfState {
	var cs *pb.ConfState
	v := 2
	if v1 {
		v = 1
	}
	n.call(fmt.Sprintf("applycc %d %s", v, raft.VerifFmtBytes(data)), func() string {
		cs = n.RN.ApplyConfChange(cc)
		return raft.VerifFmtConfState(cs)
	})
	return cs
}

func (n *Node) ReportUnreachable(id uint64) {
	n.call(fmt.Sprintf("unreachable %d", id), func() string { n.RN.ReportUnreachable(id); return "err=-" })
}

func (n *Node) ReportSnapshot(id uint64, failure bool) {
	n.call(fmt.Sprintf("snapstatus %d %d", id, b2i(failure)), func() string {
		st := raft.SnapshotFinish
		if failure {
			st = raft.SnapshotFailure
		}
		n.RN.ReportSnapshot(id, st)
		return "err=-"
	})
}

func (n *Node) TransferLeader(to uint64) {
	n.call(fmt.Sprintf("transfer %d", to), func() string { n.RN.TransferLeader(to); return "err=-" })
}

func (n *Node) ForgetLeader() {
	n.call("forget", func() string { return errText(n.RN.ForgetLeader()) })
}

func (n *Node) ReadIndex(ctx []byte) {
	n.call("readindex "+raft.VerifFmtBytes(ctx), func() string { n.RN.ReadIndex(ctx); return "err=-" })
}

// --- storage operations (performed by the application / storage thread on the MemoryStorage) ---

func (n *Node) stCall(op string, f func() string) { n.call(op, f) }

func (n *Node) StSetHardState(hs *pb.HardState) {
	n.stCall(fmt.Sprintf("st-hs %d %d %d", hs.GetTerm(), hs.GetVote(), hs.GetCommit()), func() string {
		n.St.SetHardState(hs)
		return "ok"
	})
}

func (n *Node) StAppend(ents []*pb.Entry) {
	if len(ents) == 0 {
		return
	}
	var sb strings.Builder
	sb.WriteString("st-append ")
	tokEntries(&sb, ents)
	n.stCall(sb.String(), func() string {
		if err := n.St.Append(ents); err != nil {
			return err.Error()
		}
		return "ok"
	})
}

func stErr(err error) string {
	switch err {
	case raft.ErrCompacted:
		return "ErrCompacted"
	case raft.ErrUnavailable:
		return "ErrUnavailable"
	case raft.ErrSnapOutOfDate:
		return "ErrSnapOutOfDate"
	}
	return err.Error()
}

func (n *Node) StApplySnapshot(s *pb.Snapshot) error {
	var sb strings.Builder
	sb.WriteString("st-applysnap ")
	tokSnap(&sb, s)
	var err error
	n.stCall(sb.String(), func() string {
		err = n.St.ApplySnapshot(s)
		if err != nil {
			return stErr(err)
		}
		return "ok"
	})
	return err
}

func (n *Node) StCreateSnapshot(i uint64, cs *pb.ConfState, data []byte) error {
	var sb strings.Builder
	fmt.Fprintf(&sb, "st-mksnap %d ", i)
	if cs == nil {
		sb.WriteString("-")
	} else {
		tokSnap(&sb, &pb.Snapshot{Metadata: &pb.SnapshotMetadata{ConfState: cs}})
	}
	sb.WriteByte(' ')
	sb.WriteString(raft.VerifFmtBytes(data))
	var err error
	n.stCall(sb.String(), func() string {
		var s *pb.Snapshot
		s, err = n.St.CreateSnapshot(i, cs, data)
		if err != nil {
			return stErr(err)
		}
		return raft.VerifFmtSnapshot(s)
	})
	return err
}

func (n *Node) StCompact(i uint64) error {
	var err error
	n.stCall(fmt.Sprintf("st-compact %d", i), func() string {
		err = n.St.Compact(i)
		if err != nil {
			return stErr(err)
		}
		return "ok"
	})
	return err
}

// DurableHS is the HardState a crash is guaranteed to preserve.
func (n *Node) DurableHS() *pb.HardState {
	if n.SyncedHS != nil {
		return n.SyncedHS
	}
	hs, _, _ := n.St.InitialState()
	return hs
}

// Crash drops all volatile state; the storage survives.
func (n *Node) Crash() {
	if n.RN != nil {
		n.rec.add(fmt.Sprintf("n %d crash", n.ID), "ok", "dead sto: "+raft.VerifFmtStorage(n.St))
	}
	n.RN = nil
	n.Alive = false
	n.AppendQ, n.ApplyQ = nil, nil
	n.AppendDig, n.ApplyDig = nil, nil
}
