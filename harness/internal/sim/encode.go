package sim

import (
	"fmt"
	"strings"

	"go.etcd.io/raft/v3"
	pb "go.etcd.io/raft/v3/raftpb"
	"google.golang.org/protobuf/proto"
)

// Token encodings understood by the Lean driver's parsers (Driver.lean pMsg/pSnap/pEntries/pConfig).

func tokIDs(ids []uint64) string {
	if len(ids) == 0 {
		return "-"
	}
	p := make([]string, len(ids))
	for i, x := range ids {
		p[i] = fmt.Sprint(x)
	}
	return strings.Join(p, ",")
}

func tokEntries(sb *strings.Builder, es []*pb.Entry) {
	fmt.Fprintf(sb, "%d", len(es))
	for _, e := range es {
		sb.WriteByte(' ')
		sb.WriteString(raft.VerifFmtEntry(e))
	}
}

func tokSnap(sb *strings.Builder, s *pb.Snapshot) {
	if s == nil {
		sb.WriteString("-")
		return
	}
	cs := s.GetMetadata().GetConfState()
	a := 0
	if cs.GetAutoLeave() {
		a = 1
	}
	fmt.Fprintf(sb, "S %d %d %s %s %s %s %d %s", s.GetMetadata().GetIndex(), s.GetMetadata().GetTerm(),
		tokIDs(cs.GetVoters()), tokIDs(cs.GetVotersOutgoing()), tokIDs(cs.GetLearners()), tokIDs(cs.GetLearnersNext()), a,
		raft.VerifFmtBytes(s.Data))
}

func tokMsg(sb *strings.Builder, m *pb.Message) {
	rej := 0
	if m.GetReject() {
		rej = 1
	}
	fmt.Fprintf(sb, "m %d %d %d %d %d %d %d %d %d %d ", int32(m.GetType()), m.GetFrom(), m.GetTo(), m.GetTerm(),
		m.GetLogTerm(), m.GetIndex(), m.GetCommit(), m.GetVote(), rej, m.GetRejectHint())
	tokEntries(sb, m.GetEntries())
	sb.WriteByte(' ')
	tokSnap(sb, m.GetSnapshot())
	sb.WriteByte(' ')
	sb.WriteString(raft.VerifFmtBytes(m.Context))
	fmt.Fprintf(sb, " %d", len(m.GetResponses()))
	for _, r := range m.GetResponses() {
		sb.WriteByte(' ')
		tokMsg(sb, r)
	}
}

func b2i(b bool) int {
	if b {
		return 1
	}
	return 0
}

func tokConfig(c *raft.Config) string {
	return fmt.Sprintf("%d %d %d %d %d %d %d %d %d %d %d %d %d %d %d %d", c.ID, c.ElectionTick, c.HeartbeatTick, c.Applied,
		b2i(c.AsyncStorageWrites), c.MaxSizePerMsg, c.MaxCommittedSizePerReady, c.MaxUncommittedEntriesSize,
		c.MaxInflightMsgs, c.MaxInflightBytes, b2i(c.CheckQuorum), b2i(c.PreVote), int(c.ReadOnlyOption),
		b2i(c.DisableProposalForwarding), b2i(c.DisableConfChangeValidation), b2i(c.StepDownOnRemoval))
}

// tokStorage renders a MemoryStorage for the `new … sto …` line from its canonical dump pieces.
func tokStorage(ms *raft.MemoryStorage) string {
	hs, _, _ := ms.InitialState()
	var sb strings.Builder
	if hs == nil {
		sb.WriteString("-")
	} else {
		sb.WriteString(raft.VerifFmtHardState(hs))
	}
	sb.WriteByte(' ')
	snap, _ := ms.Snapshot()
	tokSnap(&sb, snap)
	sb.WriteByte(' ')
	tokEntries(&sb, storageEnts(ms))
	return sb.String()
}

// storageEnts returns the dummy entry followed by all stored entries.
func storageEnts(ms *raft.MemoryStorage) []*pb.Entry {
	fi, _ := ms.FirstIndex()
	li, _ := ms.LastIndex()
	t, _ := ms.Term(fi - 1)
	out := []*pb.Entry{{Term: new(t), Index: new(fi - 1)}}
	if li >= fi {
		es, err := ms.Entries(fi, li+1, ^uint64(0))
		if err == nil {
			out = append(out, es...)
		}
	}
	return out
}

// clone is what a transport does: marshal and unmarshal.
func cloneMsg(m *pb.Message) *pb.Message {
	b, err := proto.Marshal(m)
	if err != nil {
		panic(err)
	}
	var out pb.Message
	if err := proto.Unmarshal(b, &out); err != nil {
		panic(err)
	}
	return &out
}

func fnv64(s string) uint64 {
	h := uint64(14695981039346656037)
	for i := 0; i < len(s); i++ {
		h ^= uint64(s[i])
		h *= 1099511628211
	}
	return h
}

func hex64(h uint64) string { return fmt.Sprintf("%016x", h) }

// TokMsg is the line-protocol encoding of a message (used by the unit-level suites).
func TokMsg(m *pb.Message) string {
	var sb strings.Builder
	tokMsg(&sb, m)
	return sb.String()
}
