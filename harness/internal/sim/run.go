package sim

import (
	"fmt"
	"sort"

	"go.etcd.io/raft/v3"
	pb "go.etcd.io/raft/v3/raftpb"
)

// Run executes O.Steps random environment actions, then (optionally) the fault-free suffix.
func (c *Cluster) Run() {
	if len(c.O.Script) > 0 {
		c.runScript()
		c.Mon.final()
		return
	}
	for c.StepN = 0; c.StepN < c.O.Steps; c.StepN++ {
		if c.fatal() {
			break
		}
		c.randomAction()
	}
	if c.O.Converge > 0 && !c.fatal() {
		c.converge()
	}
	c.Mon.final()
}

// fatal: stop the run once a violation was recorded (the prefix up to here is the replay).
func (c *Cluster) fatal() bool { return len(c.Violations) > 0 }

type wAction struct {
	w int
	f func()
}

func (c *Cluster) randomAction() {
	alive := c.alive()
	var acts []wAction
	add := func(w int, f func()) {
		if w > 0 {
			acts = append(acts, wAction{w, f})
		}
	}
	if len(alive) > 0 {
		add(22, func() { n := pick(c.Rng, alive); c.trace("tick %d", n.ID); n.Tick(); c.Mon.afterTick(n) })
		add(25, func() {
			n := pick(c.Rng, alive)
			crashAt := 0
			if c.O.Crashes && !c.O.Async && (c.Rng.Intn(60) == 0 || (c.O.CrashHeavy && c.Rng.Intn(12) == 0)) {
				crashAt = 1 + c.Rng.Intn(3)
			}
			c.trace("ready %d crashAt=%d", n.ID, crashAt)
			c.processReady(n, crashAt)
		})
		if c.O.Async {
			add(18, func() { n := pick(c.Rng, alive); c.trace("appendthread %d", n.ID); c.appendThread(n) })
			add(14, func() { n := pick(c.Rng, alive); c.trace("applythread %d", n.ID); c.applyThread(n) })
		}
		add(7, func() { c.propose(pick(c.Rng, alive)) })
		add(2, func() { c.proposeBatch(pick(c.Rng, alive)) })
		add(1, func() { n := pick(c.Rng, alive); c.trace("campaign %d", n.ID); n.Campaign() })
		if c.O.ConfChanges {
			add(2, func() { c.proposeConfChange(pick(c.Rng, alive)) })
		}
		if c.O.Transfers {
			add(1, func() {
				n := pick(c.Rng, alive)
				to := pick(c.Rng, c.IDs)
				c.trace("transfer at %d to %d", n.ID, to)
				c.Mon.onTransferRequest(n, to)
				n.TransferLeader(to)
			})
		}
		if c.O.Reads {
			w := 3
			if c.O.JointHeavy {
				w = 9
			}
			add(w, func() { c.readIndex(pick(c.Rng, alive)) })
		}
		if c.O.Compaction {
			add(2, func() { c.compact(pick(c.Rng, alive)) })
		}
		if c.O.Crashes {
			add(1, func() {
				if c.O.CrashHeavy || c.Rng.Intn(3) == 0 {
					c.crash(pick(c.Rng, alive))
				}
			})
		}
		if len(c.snapsInFlight) > 0 {
			add(3, func() { c.reportSnapshot() })
			add(1, func() {
				// the transport may report the target of a snapshot unreachable before its outcome is known
				for _, k := range c.snapKeys() {
					if n := c.Nodes[k[0]]; n != nil && n.Alive && n.RN != nil {
						c.trace("report unreachable %d->%d (snapshot in flight)", k[0], k[1])
						n.ReportUnreachable(k[1])
					}
					return
				}
			})
		}
		if c.O.SnapHeavy {
			add(6, func() { c.compact(pick(c.Rng, alive)) })
		}
		add(1, func() {
			if c.Rng.Intn(4) == 0 {
				n := pick(c.Rng, alive)
				c.trace("forget leader %d", n.ID)
				n.ForgetLeader()
			}
		})
	}
	var dead []*Node
	for _, id := range c.IDs {
		if n := c.Nodes[id]; !n.Alive && n.Panic == "" {
			dead = append(dead, n)
		}
	}
	if len(dead) > 0 {
		add(4, func() { c.restart(pick(c.Rng, dead)) })
	}
	if len(c.Net) > 0 {
		add(30, func() { c.deliver(c.pickMsg(), true) })
		add(c.O.LossPct/3, func() {
			k := c.pickMsg()
			c.trace("drop %s", raft.VerifFmtMessage(c.Net[k].m))
			c.Net = append(c.Net[:k], c.Net[k+1:]...)
			c.Stats["msg_dropped"]++
		})
		add(c.O.DupPct/3, func() { c.Stats["msg_dup"]++; c.deliver(c.pickMsg(), false) })
	}
	if c.O.Partitions {
		add(1, func() {
			if c.Rng.Intn(3) == 0 || c.O.IsolateLeader {
				c.repartition()
			}
		})
	}
	if len(c.Archive) > 0 {
		add(1+c.O.DupPct/5, func() {
			nm := c.Archive[c.Rng.Intn(len(c.Archive))]
			c.Net = append(c.Net, netMsg{m: cloneMsg(nm.m), from: nm.from})
			c.Stats["msg_late_dup"]++
			c.deliver(len(c.Net)-1, true)
		})
	}
	total := 0
	for _, a := range acts {
		total += a.w
	}
	if total == 0 {
		return
	}
	r := c.Rng.Intn(total)
	for _, a := range acts {
		if r < a.w {
			a.f()
			return
		}
		r -= a.w
	}
}

// pickMsg prefers older messages (mostly FIFO with reordering).
func (c *Cluster) pickMsg() int {
	if c.Rng.Intn(3) != 0 {
		return c.Rng.Intn(min(len(c.Net), 3))
	}
	return c.Rng.Intn(len(c.Net))
}

func (c *Cluster) repartition() {
	if c.Rng.Intn(2) == 0 {
		c.trace("heal")
		c.Part = map[uint64]int{}
		return
	}
	for _, id := range c.IDs {
		c.Part[id] = c.Rng.Intn(2)
	}
	if c.O.IsolateLeader && c.Rng.Intn(3) != 0 {
		// cut the current leader(s) off from everybody else
		for _, n := range c.alive() {
			if n.RN.BasicStatus().RaftState == raft.StateLeader {
				c.Part[n.ID] = 1
			} else {
				c.Part[n.ID] = 0
			}
		}
	}
	c.trace("partition %v", c.Part)
	c.Stats["partition"]++
}

func (c *Cluster) propose(n *Node) {
	c.propSeq++
	data := []byte(fmt.Sprintf("p%d", c.propSeq))
	if c.O.BigPayloads {
		switch c.Rng.Intn(4) {
		case 0:
			data = append(data, make([]byte, c.Rng.Intn(40))...)
		case 1:
			data = append(data, make([]byte, 100+c.Rng.Intn(200))...)
		}
	}
	if c.Rng.Intn(40) == 0 {
		data = nil // empty proposals are legal
	}
	c.trace("propose at %d %q", n.ID, data)
	c.Mon.beforePropose(n, data)
	err := n.Propose(data)
	c.Mon.afterPropose(n, data, err)
}

// proposeBatch steps one MsgProp carrying several entries (applications may batch proposals; a
// follower forwards such a message as is). With ConfChanges enabled the batch may contain
// configuration changes at any position.
func (c *Cluster) proposeBatch(n *Node) {
	k := 2 + c.Rng.Intn(3)
	var ents []*pb.Entry
	var datas [][]byte
	for i := 0; i < k; i++ {
		if c.O.ConfChanges && c.Rng.Intn(4) == 0 {
			if cc := c.randomConfChange(n); cc != nil {
				typ, data, _ := pb.MarshalConfChange(cc)
				ents = append(ents, &pb.Entry{Type: typ.Enum(), Data: data})
				continue
			}
		}
		c.propSeq++
		data := []byte(fmt.Sprintf("p%d", c.propSeq))
		if c.O.BigPayloads && c.Rng.Intn(3) == 0 {
			data = append(data, make([]byte, c.Rng.Intn(150))...)
		}
		datas = append(datas, data)
		ents = append(ents, &pb.Entry{Data: data})
	}
	m := &pb.Message{Type: pb.MsgProp.Enum(), From: new(n.ID), Entries: ents}
	c.trace("propose batch at %d (%d entries)", n.ID, len(ents))
	c.Stats["propose_batch"]++
	for _, d := range datas {
		c.Mon.registerProposal(n, d)
	}
	c.Mon.beforeStep(n, m)
	err := n.Step(m)
	c.Mon.afterStep(n, m, err)
	if err == raft.ErrProposalDropped {
		for _, d := range datas {
			c.Mon.markDropped(d)
		}
	}
}

func (c *Cluster) readIndex(n *Node) {
	c.readSeq++
	ctx := []byte(fmt.Sprintf("r%d", c.readSeq))
	if c.Rng.Intn(10) == 0 && c.readSeq > 1 {
		ctx = []byte(fmt.Sprintf("r%d", c.readSeq-1)) // duplicate context on purpose
	}
	c.trace("readindex at %d %s", n.ID, ctx)
	c.Mon.onReadIssued(n, ctx)
	n.ReadIndex(ctx)
}

// snapKeys: the snapshots in flight in a fixed order (map iteration order must not leak into the schedule)
func (c *Cluster) snapKeys() [][2]uint64 {
	ks := make([][2]uint64, 0, len(c.snapsInFlight))
	for k := range c.snapsInFlight {
		ks = append(ks, k)
	}
	sort.Slice(ks, func(i, j int) bool { return ks[i][0] < ks[j][0] || (ks[i][0] == ks[j][0] && ks[i][1] < ks[j][1]) })
	return ks
}

func (c *Cluster) reportSnapshot() {
	for _, k := range c.snapKeys() {
		delete(c.snapsInFlight, k)
		n := c.Nodes[k[0]]
		if n == nil || !n.Alive || n.RN == nil {
			return
		}
		fail := c.Rng.Intn(3) == 0
		c.trace("report snapshot %d->%d fail=%v", k[0], k[1], fail)
		n.ReportSnapshot(k[1], fail)
		return
	}
}

// proposeConfChange issues a random membership change at node n, derived from n's current view.
func (c *Cluster) proposeConfChange(n *Node) {
	cc := c.randomConfChange(n)
	if cc == nil {
		return
	}
	c.trace("proposecc at %d %s", n.ID, raft.DescribeConfChange(cc))
	c.Stats["proposecc"]++
	c.Mon.beforeProposeCC(n, cc)
	err := n.ProposeCC(cc)
	c.Mon.afterProposeCC(n, cc, err)
}

func (c *Cluster) randomConfChange(n *Node) pb.ConfChangeI {
	st := n.RN.Status()
	cfg := st.Config
	voters := map[uint64]bool{}
	for id := range cfg.Voters[0] {
		voters[id] = true
	}
	learners := map[uint64]bool{}
	for id := range cfg.Learners {
		learners[id] = true
	}
	joint := len(cfg.Voters[1]) > 0
	var changes []*pb.ConfChangeSingle
	mk := func(t pb.ConfChangeType, id uint64) *pb.ConfChangeSingle {
		return &pb.ConfChangeSingle{Type: t.Enum(), NodeId: new(id)}
	}
	anyID := func() uint64 {
		if len(c.IDs) < 5 && c.Rng.Intn(2) == 0 {
			id := c.nextID
			return id
		}
		// changes that hit the leader itself or the target of a pending transfer are the rare ones
		switch c.Rng.Intn(8) {
		case 0:
			if st.Lead != 0 {
				return st.Lead
			}
		case 1:
			if st.LeadTransferee != 0 {
				return st.LeadTransferee
			}
		}
		return pick(c.Rng, c.IDs)
	}
	nchg := 1
	if c.Rng.Intn(3) == 0 {
		nchg = 2
	}
	if joint && c.Rng.Intn(3) != 0 {
		nchg = 0 // leave joint
	}
	if c.O.JointHeavy { // stay in joint configurations: enter with two changes, leave rarely
		if joint {
			nchg = 0
			if c.Rng.Intn(6) != 0 {
				return nil
			}
		} else {
			nchg = 2
		}
	}
	remaining := len(voters)
	for i := 0; i < nchg; i++ {
		id := anyID()
		switch c.Rng.Intn(5) {
		case 0, 1:
			changes = append(changes, mk(pb.ConfChangeAddNode, id))
			if !voters[id] {
				remaining++
				voters[id] = true
			}
		case 2:
			changes = append(changes, mk(pb.ConfChangeAddLearnerNode, id))
			if voters[id] {
				remaining--
				delete(voters, id)
			}
		case 3:
			changes = append(changes, mk(pb.ConfChangeRemoveNode, id))
			if voters[id] {
				remaining--
				delete(voters, id)
			}
		case 4:
			changes = append(changes, mk(pb.ConfChangeUpdateNode, id))
		}
	}
	_ = remaining // a change that removes every voter is a legal request: raft must refuse it
	for _, ch := range changes {
		if ch.GetNodeId() >= c.nextID {
			c.nextID = ch.GetNodeId() + 1
		}
	}
	var cc pb.ConfChangeI
	if len(changes) == 1 && c.Rng.Intn(2) == 0 {
		cc = &pb.ConfChange{Type: changes[0].GetType().Enum(), NodeId: new(changes[0].GetNodeId())}
	} else {
		tr := pb.ConfChangeTransition(c.Rng.Intn(3))
		if c.O.JointHeavy {
			tr = pb.ConfChangeTransitionJointExplicit
		}
		if nchg == 0 {
			tr = pb.ConfChangeTransitionAuto
		}
		cc = &pb.ConfChangeV2{Transition: tr.Enum(), Changes: changes}
	}
	return cc
}

// stopRemoved: "nodes removed from [the committed configuration] are stopped" (C15). The committed
// configuration is the one of the running node that has applied the most.
func (c *Cluster) stopRemoved() {
	var ref *Node
	for _, n := range c.alive() {
		if ref == nil || n.RN.BasicStatus().Applied > ref.RN.BasicStatus().Applied {
			ref = n
		}
	}
	if ref == nil {
		return
	}
	cs := ref.RN.VerifConfState()
	// a node that was stopped as removed and has been added back to the committed configuration runs again
	for _, id := range c.IDs {
		if n := c.Nodes[id]; n.Removed && !n.Alive && n.Panic == "" && (inConf(id, cs) || containsID(cs.GetLearnersNext(), id)) {
			n.Removed = false
			c.restart(n)
		}
	}
	for _, n := range c.alive() {
		if !inConf(n.ID, cs) && !containsID(cs.GetLearnersNext(), n.ID) {
			c.trace("stop removed node %d", n.ID)
			c.Mon.onCrash(n)
			if c.Spec != nil {
				c.Spec.onCrash(n)
			}
			n.Crash()
			n.Removed = true
		}
	}
}

func containsID(s []uint64, id uint64) bool {
	for _, x := range s {
		if x == id {
			return true
		}
	}
	return false
}

// converge: fault-free suffix (C15). Everything is delivered, all nodes of the committed
// configuration run, storage threads run, snapshot outcomes are reported, ticks keep arriving.
func (c *Cluster) converge() {
	c.quiesce = true
	c.trace("=== fault-free suffix ===")
	c.Part = map[uint64]int{}
	for _, id := range c.IDs {
		if n := c.Nodes[id]; !n.Alive && n.Panic == "" && !n.Removed {
			c.restart(n)
		}
	}
	// The bound of C15 is probabilistic (randomised election timeouts break ties): the suffix runs for
	// c.O.Converge election timeouts and is then extended, up to 8 times that, for as long as the group
	// has not converged; only a group that is still not converged after the longest suffix is reported.
	rounds := c.O.Converge * c.O.ElectionTick
	c.Mon.onConvergeStart()
	for r := 0; r < 8*rounds && !c.fatal(); r++ {
		if r >= rounds && r%c.O.ElectionTick == 0 && c.Mon.converged() {
			break
		}
		c.stopRemoved()
		al := c.alive()
		c.Rng.Shuffle(len(al), func(i, j int) { al[i], al[j] = al[j], al[i] })
		for _, n := range al {
			n.Tick()
			c.Mon.afterTick(n)
		}
		if r%3 == 0 {
			// proposals accepted from now on must commit everywhere
			if al := c.alive(); len(al) > 0 {
				c.propose(pick(c.Rng, al))
			}
		}
		// drain: ready / storage threads / network until quiet (bounded)
		for k := 0; k < 200 && !c.fatal(); k++ {
			busy := false
			for _, n := range c.alive() {
				if n.RN.HasReady() {
					c.processReady(n, 0)
					busy = true
				}
				for len(n.AppendQ) > 0 && n.Alive {
					c.appendThread(n)
					busy = true
				}
				for len(n.ApplyQ) > 0 && n.Alive {
					c.applyThread(n)
					busy = true
				}
			}
			for len(c.Net) > 0 && !c.fatal() {
				c.deliver(0, true)
				busy = true
			}
			for len(c.snapsInFlight) > 0 {
				for _, k := range c.snapKeys() {
					delete(c.snapsInFlight, k)
					if n := c.Nodes[k[0]]; n != nil && n.Alive && n.RN != nil {
						n.ReportSnapshot(k[1], false)
					}
				}
				busy = true
			}
			if !busy {
				break
			}
		}
	}
	c.Mon.onConvergeEnd()
}
