package sim

import (
	"bytes"
	"fmt"
	"sort"
	"strings"

	"go.etcd.io/raft/v3"
	pb "go.etcd.io/raft/v3/raftpb"
	"go.etcd.io/raft/v3/tracker"
	"google.golang.org/protobuf/proto"
)

// Monitor encodes the text of the properties over what an application can observe (Ready contents,
// Status, storage, wire messages, error returns) plus the read-only hooks. One monitor per run.
type Monitor struct {
	c *Cluster

	// C01/C04: index -> entry (term,type,data) first applied / committed anywhere
	applied   map[uint64]string
	appliedBy map[uint64]string
	committed map[uint64]string // index -> "term/type/data" known committed by some node
	commitBy  map[uint64]string

	// C02
	leaders   map[uint64]string    // term -> "node/incarnation"
	grants    map[[2]uint64]uint64 // (term, voter) -> candidate (wire grants and stored votes)
	wireGrant map[[2]uint64]bool   // (term, voter) -> the grant was put on the wire
	// (term, voter, candidate) -> last entry ids (term, index) of the voter's own log each time it
	// generated a grant for that candidate in that term
	voterLogAtGrant map[[3]uint64][][2]uint64
	// C05: (node, ack term, ack index) -> term of the entry at that index when the ack was created
	ackCreated map[[3]uint64]uint64

	// per node observation state
	obs map[uint64]*nodeObs

	maxLeaderCommit   uint64
	maxReportedCommit uint64 // C11: highest HardState.Commit any node ever reported in a Ready

	// C11
	reads map[string]readReq // node/ctx -> bound

	// C20
	proposals map[string]*propInfo

	// C10
	confAt map[uint64]string // index of conf-change entry -> ConfState after applying it (all nodes agree)

	pendingStep *pb.Message
	// off: no monitoring at all (node fuzzing: inputs are not restricted to the contract)
	off bool
}

type nodeObs struct {
	inc        int
	role       raft.StateType
	term       uint64
	vote       uint64
	commit     uint64
	lead       uint64
	logFP      string
	lastHS     pb.HardState // last hard state exposed or stored (C07)
	startTerm  uint64
	nextHand   uint64 // C08: next index expected in a committed batch
	snapOut    bool   // C08: snapshot install outstanding (async)
	ticksSince int    // C17: ticks since last contact with the leader it follows
	contact    uint64 // C17: which leader
	preGrants  map[uint64]map[uint64]bool // C17: term -> set of granters (MsgPreVoteResp stepped, non-reject)
	leaderTick int                        // C17: own ticks since becoming leader
	heard      map[uint64]int             // C17: peer -> leaderTick when last heard
	lastXfer   int                        // C17: leaderTick of last transfer request
	lastConfCh int
	// C16: accepted own-term proposals
	tenureTerm uint64
	// C10
	foldCS *pb.ConfState
}

type readReq struct {
	bound uint64
	step  int
}

type propInfo struct {
	node      uint64
	dropped   bool
	delivered int // deliveries to a leader that accepted it
}

func newMonitor(c *Cluster) *Monitor {
	return &Monitor{c: c, applied: map[uint64]string{}, appliedBy: map[uint64]string{}, committed: map[uint64]string{},
		commitBy: map[uint64]string{}, leaders: map[uint64]string{}, grants: map[[2]uint64]uint64{}, obs: map[uint64]*nodeObs{},
		reads: map[string]readReq{}, proposals: map[string]*propInfo{}, confAt: map[uint64]string{}}
}

func entText(e *pb.Entry) string {
	ty := "-"
	if e.Type != nil {
		ty = fmt.Sprint(int32(e.GetType()))
	}
	// type "absent" and "normal" are the same entry type for an application
	if e.GetType() == pb.EntryNormal {
		ty = "0"
	}
	return fmt.Sprintf("%d/%s/%x", e.GetTerm(), ty, e.GetData())
}

func (m *Monitor) o(n *Node) *nodeObs {
	ob := m.obs[n.ID]
	if ob == nil {
		ob = &nodeObs{}
		m.obs[n.ID] = ob
	}
	return ob
}

// ---------------------------------------------------------------------------------------------
// incarnation start / crash

func (m *Monitor) onStart(n *Node) {
	if m.off {
		return
	}
	if n.RN == nil {
		return
	}
	ob := m.o(n)
	st := n.RN.BasicStatus()
	hs, _, _ := n.St.InitialState()
	// C07: resumes from exactly the stored hard state
	if hs != nil && !raft.IsEmptyHardState(hs) {
		if st.GetTerm() != hs.GetTerm() || st.GetVote() != hs.GetVote() || st.GetCommit() != hs.GetCommit() {
			m.c.violate("C07", "restart does not resume from stored HardState", "node %d restarted with %v, stored %v", n.ID, st.HardState, hs)
		}
	}
	// monotone across incarnations relative to what was *stored*: hard states that were exposed but
	// never persisted before the crash are forgotten
	ob.lastHS = pb.HardState{Term: new(hs.GetTerm()), Vote: new(hs.GetVote()), Commit: new(hs.GetCommit())}
	ob.inc = n.Inc
	ob.role = st.RaftState
	ob.term = st.GetTerm()
	ob.vote = st.GetVote()
	ob.commit = st.GetCommit()
	ob.lead = st.Lead
	ob.startTerm = st.GetTerm()
	ob.nextHand = n.NextApply
	ob.snapOut = false
	ob.ticksSince = 1 << 30
	ob.preGrants = map[uint64]map[uint64]bool{}
	ob.heard = map[uint64]int{}
	ob.logFP = ""
	m.observe(n, "start")
}

func (m *Monitor) onCrash(n *Node) {}

func (m *Monitor) onPanic(n *Node, op string) {
	if m.off {
		return
	}
	msg := n.Panic
	key := "panic: " + classifyPanic(msg)
	m.c.violate("C14", key, "node %d panicked in %q: %s", n.ID, firstWords(op, 6), msg)
}

func firstWords(s string, k int) string {
	f := strings.Fields(s)
	if len(f) > k {
		f = f[:k]
	}
	return strings.Join(f, " ")
}

// classifyPanic strips numbers so that the same assertion site gives the same key.
func classifyPanic(s string) string {
	var sb strings.Builder
	for _, r := range s {
		if r >= '0' && r <= '9' {
			continue
		}
		sb.WriteRune(r)
	}
	out := sb.String()
	if len(out) > 80 {
		out = out[:80]
	}
	return strings.TrimSpace(out)
}

// ---------------------------------------------------------------------------------------------
// observe: called after every successful call into node n

func (m *Monitor) observe(n *Node, op string) {
	if m.off {
		return
	}
	if n.RN == nil || !n.Alive {
		return
	}
	ob := m.o(n)
	st := n.RN.BasicStatus()
	base, ents := n.RN.VerifLogicalLog()
	last := base + uint64(len(ents))

	// C06 (b): commit <= last index, always
	if st.GetCommit() > last {
		m.c.violate("C06", "commit beyond last index", "node %d commit %d > last %d", n.ID, st.GetCommit(), last)
	}

	// C03 (local): contiguous indexes, non-decreasing terms
	prevT := uint64(0)
	for i, e := range ents {
		if e.GetIndex() != base+1+uint64(i) {
			m.c.violate("C03", "log indexes not contiguous", "node %d entry %d has index %d", n.ID, i, e.GetIndex())
			break
		}
		if e.GetTerm() < prevT {
			m.c.violate("C03", "terms decrease within a log", "node %d index %d term %d < %d", n.ID, e.GetIndex(), e.GetTerm(), prevT)
			break
		}
		prevT = e.GetTerm()
	}

	// C02 (a): a node acting as leader in a term
	if st.RaftState == raft.StateLeader && (ob.role != raft.StateLeader || ob.term != st.GetTerm()) {
		who := fmt.Sprintf("%d/%d", n.ID, n.Inc)
		if prev, ok := m.leaders[st.GetTerm()]; ok && prev != who {
			m.c.violate("C02", "two leaders in one term", "term %d led by %s and by %s (node/incarnation)", st.GetTerm(), prev, who)
		}
		m.leaders[st.GetTerm()] = who
		m.onBecomeLeader(n, st, base, ents)
		ob.leaderTick = 0
		ob.heard = map[uint64]int{}
		ob.lastXfer = -1 << 30
		ob.lastConfCh = -1 << 30
		ob.tenureTerm = st.GetTerm()
	}

	// commit advance
	if st.GetCommit() > ob.commit || ob.logFP == "" {
		m.onCommitAdvance(n, st, ob.commit, base, ents)
	}
	// C04 second clause / C01: everything at or below the commit index equals what is known committed
	fp := fmt.Sprintf("%d/%d/%d", base, last, lastTermOf(ents))
	if fp != ob.logFP || st.GetCommit() != ob.commit {
		m.checkCommittedPrefix(n, st.GetCommit(), base, ents)
		m.checkLogMatching(n, base, ents)
		m.checkProposalIntegrity(n, base, ents)
	}
	ob.logFP = fp
	ob.role = st.RaftState
	ob.term = st.GetTerm()
	ob.vote = st.GetVote()
	ob.commit = st.GetCommit()
	ob.lead = st.Lead
	if st.RaftState == raft.StateLeader {
		m.checkLeaderFlow(n)
	}
}

func lastTermOf(ents []*pb.Entry) uint64 {
	if len(ents) == 0 {
		return 0
	}
	return ents[len(ents)-1].GetTerm()
}

func entryAt(base uint64, ents []*pb.Entry, i uint64) *pb.Entry {
	if i <= base || i > base+uint64(len(ents)) {
		return nil
	}
	return ents[i-base-1]
}

// votersOf returns the voter sets of a node's active configuration.
func votersOf(n *Node) [2][]uint64 {
	cfg := n.RN.Status().Config
	var out [2][]uint64
	for k := 0; k < 2; k++ {
		for id := range cfg.Voters[k] {
			out[k] = append(out[k], id)
		}
		sort.Slice(out[k], func(i, j int) bool { return out[k][i] < out[k][j] })
	}
	return out
}

// C02 (d), C04: at the instant a node becomes leader
func (m *Monitor) onBecomeLeader(n *Node, st raft.BasicStatus, base uint64, ents []*pb.Entry) {
	t := st.GetTerm()
	vs := votersOf(n)
	// C02: every vote was granted "only to a candidate whose last log entry is at least as up to date
	// as its own" — compared with the log the candidate actually holds when it takes office (its log
	// without the entries of its own new term).
	cl, ct := base, uint64(0)
	if tt, err := n.RN.VerifTerm(base); err == nil {
		ct = tt
	}
	for _, e := range ents {
		if e.GetTerm() < t {
			cl, ct = e.GetIndex(), e.GetTerm()
		}
	}
	for k := 0; k < 2; k++ {
		for _, v := range vs[k] {
			if v == n.ID || m.grants[[2]uint64{t, v}] != n.ID || !m.wireGrant[[2]uint64{t, v}] {
				continue
			}
			for _, vl := range m.voterLogAtGrant[[3]uint64{t, v, n.ID}] {
				if vl[0] > ct || (vl[0] == ct && vl[1] > cl) {
					m.c.violate("C02", "leader elected on a vote granted for a log it does not hold",
						"node %d leads term %d with last entry %d/%d, but voter %d (last entry %d/%d) granted its vote to a request that advertised a more up-to-date log", n.ID, t, ct, cl, v, vl[0], vl[1])
					return
				}
			}
		}
	}
	for k := 0; k < 2; k++ {
		if len(vs[k]) == 0 {
			continue
		}
		cnt := 0
		for _, v := range vs[k] {
			if v == n.ID {
				if st.GetVote() == n.ID {
					cnt++
				}
				continue
			}
			if m.grants[[2]uint64{t, v}] == n.ID && m.wireGrant[[2]uint64{t, v}] {
				cnt++
			}
		}
		if 2*cnt <= len(vs[k]) {
			m.c.violate("C02", "leader without a majority of grants", "node %d became leader of term %d with %d grants of voter set %v", n.ID, t, cnt, vs[k])
		}
	}
	// C04: the new leader's log holds every entry known committed
	for i, want := range m.committed {
		e := entryAt(base, ents, i)
		if e == nil {
			if i > base+uint64(len(ents)) {
				m.c.violate("C04", "new leader misses a committed entry", "node %d leader of term %d: index %d (%s, committed by %s) beyond its log (last %d)", n.ID, t, i, want, m.commitBy[i], base+uint64(len(ents)))
			}
			continue
		}
		if entText(e) != want {
			m.c.violate("C04", "new leader holds a different entry at a committed index", "node %d leader of term %d: index %d is %s, committed %s by %s", n.ID, t, i, entText(e), want, m.commitBy[i])
		}
	}
}

// C06 (a)(c), and recording of the committed map
func (m *Monitor) onCommitAdvance(n *Node, st raft.BasicStatus, old uint64, base uint64, ents []*pb.Entry) {
	c := st.GetCommit()
	for i := max(old, base) + 1; i <= c && i <= base+uint64(len(ents)); i++ {
		e := entryAt(base, ents, i)
		if e == nil {
			continue
		}
		txt := entText(e)
		if prev, ok := m.committed[i]; ok {
			if prev != txt {
				m.c.violate("C01", "two different entries committed at one index", "index %d: node %d has %s committed, %s had %s", i, n.ID, txt, m.commitBy[i], prev)
			}
		} else {
			m.committed[i] = txt
			m.commitBy[i] = fmt.Sprintf("node %d", n.ID)
		}
	}
	if st.RaftState == raft.StateLeader && c > old && m.o(n).role == raft.StateLeader {
		// (a) the entry at c was created in the leader's own term
		if e := entryAt(base, ents, c); e != nil && e.GetTerm() != st.GetTerm() {
			m.c.violate("C06", "leader committed by counting an entry of an older term", "leader %d term %d advanced commit to %d whose term is %d", n.ID, st.GetTerm(), c, e.GetTerm())
		}
		// … and is durably stored, identical, on a majority of every voter set
		if e := entryAt(base, ents, c); e != nil {
			vs := votersOf(n)
			for k := 0; k < 2; k++ {
				if len(vs[k]) == 0 {
					continue
				}
				cnt := 0
				for _, v := range vs[k] {
					nv := m.c.Nodes[v]
					if nv == nil {
						continue
					}
					if t, err := nv.St.Term(c); err == nil && t == e.GetTerm() {
						cnt++
					} else if err == raft.ErrCompacted {
						cnt++ // covered by that node's snapshot
					}
				}
				if 2*cnt <= len(vs[k]) {
					m.c.violate("C06", "leader commit not durable on a majority", "leader %d term %d commit %d: only %d of voter set %v store it", n.ID, st.GetTerm(), c, cnt, vs[k])
				}
			}
		}
		if c > m.maxLeaderCommit {
			m.maxLeaderCommit = c
		}
	}
	if st.RaftState == raft.StateLeader && c > m.maxLeaderCommit {
		m.maxLeaderCommit = c
	}
	if st.RaftState != raft.StateLeader && c > old && c > m.maxLeaderCommit && m.o(n).inc == n.Inc && m.o(n).logFP != "" {
		m.c.violate("C06", "follower commit beyond anything a leader committed", "node %d commit %d > max leader commit %d", n.ID, c, m.maxLeaderCommit)
	}
}

func (m *Monitor) checkCommittedPrefix(n *Node, commit, base uint64, ents []*pb.Entry) {
	for i := base + 1; i <= commit && i <= base+uint64(len(ents)); i++ {
		if want, ok := m.committed[i]; ok {
			if got := entText(ents[i-base-1]); got != want {
				m.c.violate("C04", "committed entry replaced on a node", "node %d index %d is %s but %s committed %s", n.ID, i, got, m.commitBy[i], want)
				return
			}
		}
	}
}

// C03 (global): pairwise log matching between the logical logs of all running nodes and all storages
func (m *Monitor) checkLogMatching(n *Node, base uint64, ents []*pb.Entry) {
	for _, id := range m.c.IDs {
		o := m.c.Nodes[id]
		if o == n {
			continue
		}
		var ob uint64
		var oe []*pb.Entry
		if o.Alive && o.RN != nil {
			ob, oe = o.RN.VerifLogicalLog()
		} else {
			se := storageEnts(o.St)
			ob, oe = se[0].GetIndex(), se[1:]
		}
		lo := max(base, ob) + 1
		hi := min(base+uint64(len(ents)), ob+uint64(len(oe)))
		matched := false
		for i := hi; i >= lo && i > 0; i-- {
			a, b := ents[i-base-1], oe[i-ob-1]
			if !matched {
				if a.GetTerm() == b.GetTerm() {
					matched = true
				} else {
					continue
				}
			}
			if entText(a) != entText(b) {
				m.c.violate("C03", "logs with equal (index, term) differ below", "nodes %d and %d agree at a higher index but differ at %d: %s vs %s", n.ID, o.ID, i, entText(a), entText(b))
				return
			}
		}
	}
}

// ---------------------------------------------------------------------------------------------
// messages on the wire

func (m *Monitor) onSend(from *Node, msg *pb.Message) {
	if m.off {
		return
	}
	hs := from.DurableHS()
	ob := m.o(from)
	switch msg.GetType() {
	case pb.MsgVoteResp:
		if !msg.GetReject() {
			// C05: the vote is durable (or the node durably moved on)
			if !(hs.GetTerm() > msg.GetTerm() || (hs.GetTerm() == msg.GetTerm() && hs.GetVote() == msg.GetTo())) {
				m.c.violate("C05", "vote grant visible before durable", "node %d sends grant for term %d to %d, stored HardState %v", from.ID, msg.GetTerm(), msg.GetTo(), hs)
			}
			m.recordGrant(msg.GetTerm(), from.ID, msg.GetTo(), true)
		}
	case pb.MsgAppResp:
		if !msg.GetReject() && msg.GetIndex() > 0 {
			m.checkAckDurable(from, msg, hs)
		}
	case pb.MsgApp:
		m.checkAppSize(from, msg)
	case pb.MsgSnap:
		// C09: every snapshot a leader sends describes a prefix of the committed log
		if from.RN != nil {
			if c := from.RN.BasicStatus().GetCommit(); msg.GetSnapshot().GetMetadata().GetIndex() > c {
				m.c.violate("C09", "snapshot beyond commit sent", "node %d sends snapshot at %d, commit %d", from.ID, msg.GetSnapshot().GetMetadata().GetIndex(), c)
			}
		}
	}
	// C07: never acts in a term lower than the hard state it resumed from
	if t := msg.GetTerm(); t != 0 && t < ob.startTerm {
		m.c.violate("C07", "message with a term below the resumed hard state", "node %d (resumed at term %d) sends %s with term %d", from.ID, ob.startTerm, msg.GetType(), t)
	}
}

func (m *Monitor) recordGrant(term, voter, cand uint64, wire bool) {
	k := [2]uint64{term, voter}
	if prev, ok := m.grants[k]; ok && prev != cand {
		m.c.violate("C02", "two votes in one term", "node %d voted for %d and for %d in term %d", voter, prev, cand, term)
		return
	}
	m.grants[k] = cand
	if wire {
		if m.wireGrant == nil {
			m.wireGrant = map[[2]uint64]bool{}
		}
		m.wireGrant[k] = true
	}
}

// C05: a non-reject MsgAppResp(index i, term t) is sendable only when the acknowledged entries are
// on stable storage, or the sender durably moved to a higher term.
func (m *Monitor) checkAckDurable(from *Node, msg *pb.Message, hs *pb.HardState) {
	if hs.GetTerm() > msg.GetTerm() {
		return
	}
	i := msg.GetIndex()
	li, _ := from.St.LastIndex()
	if from.SyncedHS != nil {
		li = min(li, from.SyncedLast)
	}
	if li < i {
		m.c.violate("C05", "append acknowledged before durable", "node %d acks index %d (term %d) to %d but its storage ends at %d", from.ID, i, msg.GetTerm(), msg.GetTo(), li)
		return
	}
	// the stored entry at i is the one the node held when it created the acknowledgement
	if want, ok := m.ackCreated[[3]uint64{from.ID, msg.GetTerm(), i}]; ok {
		if t, err := from.St.Term(i); err == nil && t != want {
			m.c.violate("C05", "append acknowledged before durable", "node %d acks index %d (term %d): stored entry has term %d, acknowledged entry had term %d", from.ID, i, msg.GetTerm(), t, want)
		}
	}
}

// noteAcksCreated records, for every acknowledgement created by the last call, the term of the entry
// at the acknowledged index at that moment.
func (m *Monitor) noteAcksCreated(n *Node) {
	vi := n.RN.VerifInfo()
	if len(vi.PendingAfterApp) <= cur.nmaa {
		return
	}
	for _, r := range vi.PendingAfterApp[cur.nmaa:] {
		if r.GetType() == pb.MsgAppResp && !r.GetReject() && r.GetIndex() > 0 {
			if t, err := n.RN.VerifTerm(r.GetIndex()); err == nil {
				if m.ackCreated == nil {
					m.ackCreated = map[[3]uint64]uint64{}
				}
				m.ackCreated[[3]uint64{n.ID, r.GetTerm(), r.GetIndex()}] = t
			}
		}
	}
}

// C16: size of append messages
func (m *Monitor) checkAppSize(from *Node, msg *pb.Message) {
	if len(msg.GetEntries()) <= 1 {
		return
	}
	sz := uint64(0)
	for _, e := range msg.GetEntries() {
		sz += uint64(proto.Size(e))
	}
	if sz > from.Cfg.MaxSizePerMsg {
		m.c.violate("C16", "append larger than MaxSizePerMsg", "node %d sends %d entries of %d bytes, limit %d", from.ID, len(msg.GetEntries()), sz, from.Cfg.MaxSizePerMsg)
	}
}

// ---------------------------------------------------------------------------------------------
// Ready / persistence / apply

func (m *Monitor) onReady(n *Node, rd *raft.Ready) {
	if m.off {
		return
	}
	ob := m.o(n)
	// C07: hard states exposed are monotone
	check := func(hs *pb.HardState) {
		if hs == nil || raft.IsEmptyHardState(hs) {
			return
		}
		l := &ob.lastHS
		if hs.GetTerm() < l.GetTerm() {
			m.c.violate("C07", "term decreased", "node %d exposes term %d after %d", n.ID, hs.GetTerm(), l.GetTerm())
		}
		if hs.GetCommit() < l.GetCommit() {
			m.c.violate("C07", "commit decreased", "node %d exposes commit %d after %d", n.ID, hs.GetCommit(), l.GetCommit())
		}
		if hs.GetTerm() == l.GetTerm() && l.GetVote() != 0 && hs.GetVote() != l.GetVote() {
			m.c.violate("C07", "vote changed within a term", "node %d term %d vote %d after %d", n.ID, hs.GetTerm(), hs.GetVote(), l.GetVote())
		}
		ob.lastHS = pb.HardState{Term: new(hs.GetTerm()), Vote: new(hs.GetVote()), Commit: new(hs.GetCommit())}
	}
	check(rd.HardState)
	if rd.HardState != nil {
		m.maxReportedCommit = max(m.maxReportedCommit, rd.HardState.GetCommit())
	}
	// C08: the committed batch handed out by this Ready
	var batch []*pb.Entry
	snapInBatch := !raft.IsEmptySnap(rd.Snapshot)
	if m.c.O.Async {
		for _, msg := range rd.Messages {
			if msg.GetType() == pb.MsgStorageApply {
				batch = msg.GetEntries()
			}
			if msg.GetType() == pb.MsgStorageAppend && !raft.IsEmptySnap(msg.GetSnapshot()) {
				snapInBatch = true
			}
		}
	} else {
		batch = rd.CommittedEntries
	}
	if snapInBatch {
		ob.snapOut = true
		ob.nextHand = rd.Snapshot.GetMetadata().GetIndex() + 1
		if m.c.O.Async {
			for _, msg := range rd.Messages {
				if msg.GetType() == pb.MsgStorageAppend && !raft.IsEmptySnap(msg.GetSnapshot()) {
					ob.nextHand = msg.GetSnapshot().GetMetadata().GetIndex() + 1
				}
			}
		}
	}
	if len(batch) > 0 {
		m.checkBatch(n, ob, batch, rd)
	}
	if !m.c.O.Async {
		ob.snapOut = false // a sync Ready completes the install before the next Ready
	}
	// C11
	for _, rs := range rd.ReadStates {
		m.onReadState(n, rs)
	}
}

func (m *Monitor) checkBatch(n *Node, ob *nodeObs, batch []*pb.Entry, rd *raft.Ready) {
	if ob.snapOut {
		m.c.violate("C08", "entries handed out while a snapshot install is outstanding", "node %d hands out %d entries with a snapshot pending", n.ID, len(batch))
	}
	if batch[0].GetIndex() != ob.nextHand {
		m.c.violate("C08", "apply stream gap or repeat", "node %d batch starts at %d, expected %d", n.ID, batch[0].GetIndex(), ob.nextHand)
	}
	for i, e := range batch {
		if e.GetIndex() != batch[0].GetIndex()+uint64(i) {
			m.c.violate("C08", "apply batch not contiguous", "node %d batch index %d at position %d", n.ID, e.GetIndex(), i)
		}
	}
	lastI := batch[len(batch)-1].GetIndex()
	if c := n.RN.BasicStatus().GetCommit(); lastI > c {
		m.c.violate("C08", "entry beyond commit handed out", "node %d hands out %d, commit %d", n.ID, lastI, c)
	}
	if m.c.O.Async {
		if li, _ := n.St.LastIndex(); lastI > li {
			m.c.violate("C08", "non-durable entry handed out (async)", "node %d hands out %d, storage ends at %d", n.ID, lastI, li)
		}
	}
	lim := n.Cfg.MaxCommittedSizePerReady
	if lim == 0 {
		lim = n.Cfg.MaxSizePerMsg
	}
	if len(batch) > 1 {
		sz := uint64(0)
		for _, e := range batch {
			sz += uint64(proto.Size(e))
		}
		if sz > lim {
			m.c.violate("C08", "apply batch over the size limit", "node %d batch of %d entries, %d bytes, limit %d", n.ID, len(batch), sz, lim)
		}
	}
	ob.nextHand = lastI + 1
}

func (m *Monitor) onPersist(n *Node) {
	if m.off {
		return
	}
	hs, _, _ := n.St.InitialState()
	if hs != nil && hs.GetVote() != 0 {
		m.recordGrant(hs.GetTerm(), n.ID, hs.GetVote(), false)
	}
}

func (m *Monitor) onSnapshotApplied(n *Node, snap *pb.Snapshot) {
	if m.off {
		return
	}
	idx, term := snap.GetMetadata().GetIndex(), snap.GetMetadata().GetTerm()
	if want, ok := m.applied[idx]; ok {
		if !strings.HasPrefix(want, fmt.Sprintf("%d/", term)) {
			m.c.violate("C01", "snapshot contradicts an applied entry", "node %d installs snapshot (%d, term %d) but %s applied %s there", n.ID, idx, term, m.appliedBy[idx], want)
		}
	}
	ob := m.o(n)
	ob.snapOut = false
}

// C01: every entry handed to the application
func (m *Monitor) onApply(n *Node, e *pb.Entry) {
	if m.off {
		return
	}
	txt := entText(e)
	i := e.GetIndex()
	if prev, ok := m.applied[i]; ok {
		if prev != txt {
			m.c.violate("C01", "different entries applied at one index", "index %d: node %d (incarnation %d) applies %s, %s applied %s", i, n.ID, n.Inc, txt, m.appliedBy[i], prev)
		}
	} else {
		m.applied[i] = txt
		m.appliedBy[i] = fmt.Sprintf("node %d", n.ID)
	}
	if prev, ok := n.AppliedEnts[i]; ok && prev != txt {
		m.c.violate("C01", "a node applied two different entries at one index", "node %d index %d: %s then %s", n.ID, i, prev, txt)
	}
	n.AppliedEnts[i] = txt
	if i != n.NextApply {
		m.c.violate("C08", "application received a gap or repeat", "node %d applies %d, expected %d", n.ID, i, n.NextApply)
	}
}

func (m *Monitor) afterAdvance(n *Node) {}

// ---------------------------------------------------------------------------------------------
// step hooks

type stepCtx struct {
	st     raft.BasicStatus
	base   uint64
	last   uint64
	lastT  uint64
	has    bool // log holds (snapshot index, term)
	nmsgs  int
	nmaa   int
	prs    map[uint64]raft.VerifInflight
	hadUCC bool
}

var cur stepCtx

func (m *Monitor) snapshotCtx(n *Node) {
	if m.off {
		return
	}
	cur = stepCtx{st: n.RN.BasicStatus()}
	base, ents := n.RN.VerifLogicalLog()
	cur.base, cur.last, cur.lastT = base, base+uint64(len(ents)), lastTermOf(ents)
	if len(ents) == 0 {
		if t, err := n.St.Term(base); err == nil {
			cur.lastT = t
		}
	}
	vi := n.RN.VerifInfo()
	cur.nmsgs = len(vi.PendingMsgs)
	cur.nmaa = len(vi.PendingAfterApp)
	cur.prs = vi.Inflights
	cur.hadUCC = m.hasUnappliedCommittedCC(n, cur.st, base, ents)
}

func (m *Monitor) hasUnappliedCommittedCC(n *Node, st raft.BasicStatus, base uint64, ents []*pb.Entry) bool {
	for i := max(st.Applied, base) + 1; i <= st.GetCommit() && i <= base+uint64(len(ents)); i++ {
		if e := entryAt(base, ents, i); e != nil && (e.GetType() == pb.EntryConfChange || e.GetType() == pb.EntryConfChangeV2) {
			return true
		}
	}
	return false
}

func (m *Monitor) beforeStep(n *Node, msg *pb.Message) {
	if m.off {
		return
	}
	m.snapshotCtx(n)
	m.pendingStep = msg
	if msg.GetType() == pb.MsgPreVoteResp && !msg.GetReject() {
		// C17: a pre-vote granted for term msg.Term (recorded before the call: the call may act on it)
		ob := m.o(n)
		g := ob.preGrants[msg.GetTerm()]
		if g == nil {
			g = map[uint64]bool{}
			ob.preGrants[msg.GetTerm()] = g
		}
		g[msg.GetFrom()] = true
	}
	if msg.GetType() == pb.MsgSnap {
		s := msg.GetSnapshot().GetMetadata()
		base, ents := n.RN.VerifLogicalLog()
		cur.has = false
		if e := entryAt(base, ents, s.GetIndex()); e != nil && e.GetTerm() == s.GetTerm() {
			cur.has = true
		}
		if s.GetIndex() == base {
			if t, err := n.St.Term(base); err == nil && t == s.GetTerm() {
				cur.has = true
			}
		}
	}
	// C20: a proposal delivered to a leader
	if msg.GetType() == pb.MsgProp && cur.st.RaftState == raft.StateLeader {
		m.noteDelivery(n, msg)
	}
}

func (m *Monitor) afterStep(n *Node, msg *pb.Message, err error) {
	if m.off {
		return
	}
	if n.RN == nil || !n.Alive {
		return
	}
	st := n.RN.BasicStatus()
	ob := m.o(n)
	switch msg.GetType() {
	case pb.MsgPreVote:
		// C17: a pre-vote request never changes term or vote
		if st.GetTerm() != cur.st.GetTerm() || st.GetVote() != cur.st.GetVote() {
			m.c.violate("C17", "pre-vote request changed term or vote", "node %d: (%d,%d) -> (%d,%d) on MsgPreVote from %d", n.ID, cur.st.GetTerm(), cur.st.GetVote(), st.GetTerm(), st.GetVote(), msg.GetFrom())
		}
		m.checkInLease(n, msg, st)
	case pb.MsgVote:
		m.checkInLease(n, msg, st)
		// a grant generated by this step (first or repeated): remember what the voter's own log was
		if vi := n.RN.VerifInfo(); len(vi.PendingAfterApp) > cur.nmaa {
			for _, r := range vi.PendingAfterApp[cur.nmaa:] {
				if r.GetType() == pb.MsgVoteResp && !r.GetReject() && r.GetTo() == msg.GetFrom() {
					if m.voterLogAtGrant == nil {
						m.voterLogAtGrant = map[[3]uint64][][2]uint64{}
					}
					k := [3]uint64{r.GetTerm(), n.ID, msg.GetFrom()}
					m.voterLogAtGrant[k] = append(m.voterLogAtGrant[k], [2]uint64{cur.lastT, cur.last})
				}
			}
		}
		// C02 (c): granted only to an up-to-date candidate
		if st.GetVote() == msg.GetFrom() && (cur.st.GetVote() != msg.GetFrom() || cur.st.GetTerm() != st.GetTerm()) {
			ok := msg.GetLogTerm() > cur.lastT || (msg.GetLogTerm() == cur.lastT && msg.GetIndex() >= cur.last)
			if !ok {
				m.c.violate("C02", "vote granted to a candidate with an older log", "node %d (last %d/%d) voted for %d (last %d/%d) in term %d", n.ID, cur.lastT, cur.last, msg.GetFrom(), msg.GetLogTerm(), msg.GetIndex(), st.GetTerm())
			}
		}
	case pb.MsgSnap:
		m.checkSnapshotStep(n, msg, st)
	case pb.MsgApp, pb.MsgHeartbeat:
		if st.Lead == msg.GetFrom() && st.GetTerm() == msg.GetTerm() {
			ob.ticksSince = 0
			ob.contact = msg.GetFrom()
		}
	case pb.MsgAppResp, pb.MsgHeartbeatResp:
		if st.RaftState == raft.StateLeader && msg.GetTerm() == st.GetTerm() {
			ob.heard[msg.GetFrom()] = ob.leaderTick
		}
	case pb.MsgTransferLeader:
		// observation O1 (DESIGN.md 7.7): a transfer request restarts the leader's election timer, so
		// the step-down bound is only checked over windows without one
		ob.lastXfer = ob.leaderTick
	case pb.MsgProp:
		if cur.st.RaftState == raft.StateLeader {
			m.noteOutcome(n, msg, err)
		}
	}
	if msg.GetType() == pb.MsgSnap && st.Lead == msg.GetFrom() && st.GetTerm() == msg.GetTerm() {
		ob.ticksSince = 0
		ob.contact = msg.GetFrom()
	}
}

// afterCall runs after every successful call into a live node (the pre-call context is in cur).
func (m *Monitor) afterCall(n *Node, op string) {
	if m.off {
		return
	}
	if n.RN == nil || !n.Alive {
		return
	}
	st := n.RN.BasicStatus()
	transfer := strings.HasPrefix(op, "step m 14 ")
	m.noteAcksCreated(n)
	m.checkCampaign(n, st, transfer, firstWords(op, 3))
	m.checkNoAppWhileSnapshot(n)
	m.observe(n, op)
}

// C17: with CheckQuorum, a node that still follows a leader it heard from within the last election
// timeout neither grants a vote nor raises its term for a non-forced request.
func (m *Monitor) checkInLease(n *Node, msg *pb.Message, st raft.BasicStatus) {
	if !n.Cfg.CheckQuorum {
		return
	}
	ob := m.o(n)
	force := bytes.Equal(msg.GetContext(), []byte("CampaignTransfer"))
	if force || msg.GetTerm() <= cur.st.GetTerm() {
		return
	}
	if cur.st.Lead == raft.None || cur.st.Lead != ob.contact || ob.ticksSince >= n.Cfg.ElectionTick || cur.st.RaftState != raft.StateFollower {
		return
	}
	if st.GetTerm() != cur.st.GetTerm() || st.GetVote() != cur.st.GetVote() {
		m.c.violate("C17", "in-lease node reacted to a disruptive request", "node %d (leader %d heard %d ticks ago) went (%d,%d) -> (%d,%d) on %s from %d", n.ID, cur.st.Lead, ob.ticksSince, cur.st.GetTerm(), cur.st.GetVote(), st.GetTerm(), st.GetVote(), msg.GetType(), msg.GetFrom())
	}
}

// C17 + C10(c): a node starting a real campaign in this call
func (m *Monitor) checkCampaign(n *Node, st raft.BasicStatus, transfer bool, op string) {
	started := st.RaftState == raft.StateCandidate && (cur.st.RaftState != raft.StateCandidate || st.GetTerm() != cur.st.GetTerm())
	preStarted := st.RaftState == raft.StatePreCandidate && cur.st.RaftState != raft.StatePreCandidate
	if (started || preStarted) && cur.hadUCC && cur.st.RaftState != raft.StatePreCandidate {
		m.c.violate("C10", "campaign with a committed but unapplied conf change", "node %d became %s in %q with an unapplied committed conf change", n.ID, st.RaftState, op)
	}
	if !started || !n.Cfg.PreVote || transfer {
		return
	}
	// own campaign raised the term to st.Term: needs pre-vote grants for exactly that term
	ob := m.o(n)
	g := ob.preGrants[st.GetTerm()]
	vs := votersOf(n)
	for k := 0; k < 2; k++ {
		if len(vs[k]) == 0 {
			continue
		}
		cnt := 0
		for _, v := range vs[k] {
			if g[v] || v == n.ID {
				cnt++
			}
		}
		if 2*cnt <= len(vs[k]) {
			m.c.violate("C17", "term raised without a pre-vote quorum for that term", "node %d campaigns at term %d with pre-vote grants for that term from %v only (voters %v)", n.ID, st.GetTerm(), keys(g), vs[k])
		}
	}
}

func keys(g map[uint64]bool) []uint64 {
	var out []uint64
	for k := range g {
		out = append(out, k)
	}
	sort.Slice(out, func(i, j int) bool { return out[i] < out[j] })
	return out
}

// C09
func (m *Monitor) checkSnapshotStep(n *Node, msg *pb.Message, st raft.BasicStatus) {
	s := msg.GetSnapshot().GetMetadata()
	if msg.GetTerm() < cur.st.GetTerm() {
		return // stale message, ignored before reaching the snapshot logic
	}
	base, ents := n.RN.VerifLogicalLog()
	last := base + uint64(len(ents))
	if st.GetCommit() < cur.st.GetCommit() {
		m.c.violate("C09", "snapshot lowered the commit index", "node %d commit %d -> %d", n.ID, cur.st.GetCommit(), st.GetCommit())
	}
	installed := base == s.GetIndex() && last == s.GetIndex() && (cur.base != base || cur.last != last)
	switch {
	case s.GetIndex() <= cur.st.GetCommit():
		if installed || base != cur.base || last != cur.last {
			m.c.violate("C09", "snapshot at or below commit changed the log", "node %d commit %d snapshot %d", n.ID, cur.st.GetCommit(), s.GetIndex())
		}
	case cur.has:
		if base != cur.base || last != cur.last {
			m.c.violate("C09", "matching snapshot changed the log", "node %d already had (%d,%d)", n.ID, s.GetIndex(), s.GetTerm())
		}
		if cur.st.RaftState == raft.StateFollower && st.GetCommit() != max(cur.st.GetCommit(), s.GetIndex()) && inConf(n.ID, s.GetConfState()) {
			m.c.violate("C09", "matching snapshot did not fast-forward commit", "node %d commit %d after snapshot %d", n.ID, st.GetCommit(), s.GetIndex())
		}
	default:
		if installed {
			if st.GetCommit() != s.GetIndex() {
				m.c.violate("C09", "installed snapshot but commit differs", "node %d commit %d snapshot %d", n.ID, st.GetCommit(), s.GetIndex())
			}
			if t, err := n.RN.VerifTerm(s.GetIndex()); err != nil || t != s.GetTerm() {
				m.c.violate("C09", "installed snapshot but base term differs", "node %d base term %d snapshot term %d", n.ID, t, s.GetTerm())
			}
			cs := n.RN.VerifConfState()
			if cs.Equivalent(s.GetConfState()) != nil {
				m.c.violate("C09", "installed snapshot but membership differs", "node %d config %v snapshot %v", n.ID, cs, s.GetConfState())
			}
		}
	}
}

func inConf(id uint64, cs *pb.ConfState) bool {
	for _, set := range [][]uint64{cs.GetVoters(), cs.GetLearners(), cs.GetVotersOutgoing()} {
		for _, x := range set {
			if x == id {
				return true
			}
		}
	}
	return false
}

// C16: no appends to a follower for which a snapshot is pending (creation-time check, see DESIGN 6 C16)
func (m *Monitor) checkNoAppWhileSnapshot(n *Node) {
	if n.RN == nil {
		return
	}
	vi := n.RN.VerifInfo()
	if len(vi.PendingMsgs) <= cur.nmsgs {
		return
	}
	snapSeen := map[uint64]bool{}
	for _, msg := range vi.PendingMsgs[min(cur.nmsgs, len(vi.PendingMsgs)):] {
		to := msg.GetTo()
		switch msg.GetType() {
		case pb.MsgSnap:
			snapSeen[to] = true
		case pb.MsgApp:
			pre, post := cur.prs[to], vi.Inflights[to]
			if snapSeen[to] {
				m.c.violate("C16", "append sent while a snapshot is pending", "node %d queued MsgApp to %d after MsgSnap in the same step", n.ID, to)
			} else if pre.State == tracker.StateSnapshot && post.State == tracker.StateSnapshot && pre.Pending == post.Pending {
				m.c.violate("C16", "append sent while a snapshot is pending", "node %d queued MsgApp to %d in StateSnapshot (pending %d)", n.ID, to, pre.Pending)
			}
		}
	}
}

// C16: in-flight window of a leader
func (m *Monitor) checkLeaderFlow(n *Node) {
	vi := n.RN.VerifInfo()
	for id, in := range vi.Inflights {
		if in.State != tracker.StateReplicate {
			continue
		}
		if in.Count > n.Cfg.MaxInflightMsgs {
			m.c.violate("C16", "more than MaxInflightMsgs outstanding", "leader %d has %d in flight to %d, limit %d", n.ID, in.Count, id, n.Cfg.MaxInflightMsgs)
		}
		if mb := n.Cfg.MaxInflightBytes; mb != 0 && in.Count > 0 && in.Bytes-in.LastBytes >= mb {
			m.c.violate("C16", "more than MaxInflightBytes outstanding", "leader %d has %d bytes in flight to %d (last %d), limit %d", n.ID, in.Bytes, id, in.LastBytes, mb)
		}
	}
}

// ---------------------------------------------------------------------------------------------
// ticks (C17 step-down bound)

func (m *Monitor) afterTick(n *Node) {
	if m.off {
		return
	}
	if n.RN == nil || !n.Alive {
		return
	}
	ob := m.o(n)
	if ob.ticksSince < 1<<29 {
		ob.ticksSince++
	}
	st := n.RN.BasicStatus()
	wasLeader := cur.st.RaftState == raft.StateLeader && cur.st.GetTerm() == st.GetTerm()
	if st.RaftState == raft.StateLeader && wasLeader {
		ob.leaderTick++
		et := n.Cfg.ElectionTick
		if n.Cfg.CheckQuorum && ob.leaderTick > 2*et+1 && ob.leaderTick-ob.lastXfer > 2*et+1 && ob.leaderTick-ob.lastConfCh > 2*et+1 {
			vs := votersOf(n)
			for k := 0; k < 2; k++ {
				if len(vs[k]) == 0 {
					continue
				}
				cnt := 0
				for _, v := range vs[k] {
					if v == n.ID {
						cnt++
					} else if t, ok := ob.heard[v]; ok && t > ob.leaderTick-2*et-1 {
						cnt++
					}
				}
				if 2*cnt <= len(vs[k]) {
					m.c.violate("C17", "leader outlived its quorum contact", "leader %d term %d still leads after %d ticks hearing only from %d of %v within two election timeouts (last heard at own tick: %v; electionElapsed %d)", n.ID, st.GetTerm(), ob.leaderTick, cnt, vs[k], ob.heard, n.RN.VerifInfo().ElectionElapsed)
				}
			}
		}
	}
}

func (m *Monitor) onTransferRequest(n *Node, to uint64) {
	if m.off {
		return
	}
	ob := m.o(n)
	ob.lastXfer = ob.leaderTick
}

// ---------------------------------------------------------------------------------------------
// C11 reads

func (m *Monitor) onReadIssued(n *Node, ctx []byte) {
	if m.off {
		return
	}
	if m.c.O.ReadOnlyLease {
		return
	}
	bound := m.maxReportedCommit
	for _, id := range m.c.IDs {
		o := m.c.Nodes[id]
		if o.Alive && o.RN != nil {
			bound = max(bound, o.RN.BasicStatus().GetCommit())
		}
		if hs, _, _ := o.St.InitialState(); hs != nil {
			bound = max(bound, hs.GetCommit())
		}
	}
	k := fmt.Sprintf("%d/%s", n.ID, ctx)
	if prev, ok := m.reads[k]; ok {
		// duplicate context: a read state may answer either request; keep the weaker bound
		bound = min(bound, prev.bound)
	}
	m.reads[k] = readReq{bound: bound, step: m.c.StepN}
}

func (m *Monitor) onReadState(n *Node, rs raft.ReadState) {
	if m.off {
		return
	}
	if m.c.O.ReadOnlyLease {
		return
	}
	k := fmt.Sprintf("%d/%s", n.ID, rs.RequestCtx)
	rq, ok := m.reads[k]
	if !ok {
		m.c.violate("C11", "read state with a context nobody issued here", "node %d got ReadState ctx %q index %d", n.ID, rs.RequestCtx, rs.Index)
		return
	}
	if rs.Index < rq.bound {
		m.c.violate("C11", "read index below a commit index reported when the request was issued", "node %d ctx %q: index %d < %d (issued at step %d)", n.ID, rs.RequestCtx, rs.Index, rq.bound, rq.step)
	}
}

// ---------------------------------------------------------------------------------------------
// C20 proposals, C16 uncommitted size

func payloadID(data []byte) string {
	if i := bytes.IndexByte(data, 0); i >= 0 {
		return string(data[:i])
	}
	return string(data)
}

// registerProposal / markDropped: bookkeeping for proposals that are not issued through Propose()
func (m *Monitor) registerProposal(n *Node, data []byte) {
	if m.off {
		return
	}
	if len(data) > 0 {
		m.proposals[payloadID(data)] = &propInfo{node: n.ID}
	}
}

func (m *Monitor) markDropped(data []byte) {
	if m.off {
		return
	}
	if pi := m.proposals[payloadID(data)]; pi != nil {
		pi.dropped = true
	}
}

func (m *Monitor) beforePropose(n *Node, data []byte) {
	if m.off {
		return
	}
	m.snapshotCtx(n)
	if len(data) > 0 {
		m.proposals[payloadID(data)] = &propInfo{node: n.ID}
	}
	if cur.st.RaftState == raft.StateLeader && len(data) > 0 {
		m.proposals[payloadID(data)].delivered++
	}
}

func (m *Monitor) afterPropose(n *Node, data []byte, err error) {
	if m.off {
		return
	}
	if n.RN == nil || !n.Alive {
		return
	}
	if len(data) > 0 {
		pi := m.proposals[payloadID(data)]
		if err == raft.ErrProposalDropped {
			pi.dropped = true
			if cur.st.RaftState == raft.StateLeader {
				pi.delivered--
			}
		}
	}
	if cur.st.RaftState == raft.StateLeader {
		m.checkUncommitted(n, uint64(len(data)), err)
	}
}

func (m *Monitor) noteDelivery(n *Node, msg *pb.Message) {
	for _, e := range msg.GetEntries() {
		if e.GetType() == pb.EntryNormal && len(e.GetData()) > 0 {
			if pi := m.proposals[payloadID(e.GetData())]; pi != nil {
				pi.delivered++
			}
		}
	}
}

func (m *Monitor) noteOutcome(n *Node, msg *pb.Message, err error) {
	sz := uint64(0)
	for _, e := range msg.GetEntries() {
		sz += uint64(len(e.GetData()))
		if err == raft.ErrProposalDropped && e.GetType() == pb.EntryNormal && len(e.GetData()) > 0 {
			if pi := m.proposals[payloadID(e.GetData())]; pi != nil {
				pi.delivered--
			}
		}
	}
	m.checkUncommitted(n, sz, err)
}

// C16: a leader whose log cannot advance accepts at most MaxUncommittedEntriesSize bytes of proposals
// plus one proposal, and reports every further non-empty proposal as dropped.
func (m *Monitor) checkUncommitted(n *Node, s uint64, err error) {
	lim := n.Cfg.MaxUncommittedEntriesSize
	if lim == 0 || n.RN == nil {
		return
	}
	st := n.RN.BasicStatus()
	if st.RaftState != raft.StateLeader || st.GetTerm() != cur.st.GetTerm() {
		return
	}
	base, ents := n.RN.VerifLogicalLog()
	own := uint64(0) // payload bytes of own-term entries above the commit index, after the call
	for i := max(st.GetCommit(), base) + 1; i <= base+uint64(len(ents)); i++ {
		if e := entryAt(base, ents, i); e != nil && e.GetTerm() == st.GetTerm() {
			own += uint64(len(e.GetData()))
		}
	}
	if err == nil && s > 0 {
		// accepted: either nothing of this term was uncommitted before (one proposal is always let
		// through), or the total stays within the limit
		if own > lim && own != s {
			m.c.violate("C16", "uncommitted proposals beyond MaxUncommittedEntriesSize", "leader %d term %d holds %d uncommitted payload bytes after accepting %d, limit %d", n.ID, st.GetTerm(), own, s, lim)
		}
	} else if err == raft.ErrProposalDropped && s > 0 {
		_ = own
	}
}

// checkProposalIntegrity (C20) over one node's logical log.
func (m *Monitor) checkProposalIntegrity(n *Node, base uint64, ents []*pb.Entry) {
	count := map[string]int{}
	for _, e := range ents {
		if e.GetType() != pb.EntryNormal || len(e.GetData()) == 0 {
			continue
		}
		id := payloadID(e.GetData())
		pi := m.proposals[id]
		if pi == nil {
			m.c.violate("C20", "entry that nobody proposed", "node %d index %d holds payload %q that was never proposed", n.ID, e.GetIndex(), id)
			return
		}
		count[id]++
		if count[id] > pi.delivered {
			m.c.violate("C20", "proposal appears more often than it was delivered to a leader", "node %d holds payload %q %d times, delivered to a leader %d times (dropped=%v)", n.ID, id, count[id], pi.delivered, pi.dropped)
			return
		}
	}
}

// ---------------------------------------------------------------------------------------------
// C10 configuration changes

func (m *Monitor) beforeProposeCC(n *Node, cc pb.ConfChangeI) { m.snapshotCtx(n) }

func (m *Monitor) afterProposeCC(n *Node, cc pb.ConfChangeI, err error) {
	if m.off {
		return
	}
	if n.RN == nil || !n.Alive {
		return
	}
	if cur.st.RaftState == raft.StateLeader {
		m.checkPendingConf(n)
	}
}

// (b) when a leader appends a conf change at j no other conf change lies in (applied, j)
func (m *Monitor) checkPendingConf(n *Node) {
	st := n.RN.BasicStatus()
	if st.RaftState != raft.StateLeader {
		return
	}
	base, ents := n.RN.VerifLogicalLog()
	cnt := 0
	var idx []uint64
	for i := max(st.Applied, base) + 1; i <= base+uint64(len(ents)); i++ {
		if e := entryAt(base, ents, i); e != nil && (e.GetType() == pb.EntryConfChange || e.GetType() == pb.EntryConfChangeV2) {
			cnt++
			idx = append(idx, i)
		}
	}
	if cnt > 1 && entryAt(base, ents, idx[len(idx)-1]).GetTerm() == st.GetTerm() && idx[len(idx)-1] > cur.last {
		m.c.violate("C10", "second conf change appended while one may be unapplied", "leader %d applied %d has conf changes at %v", n.ID, st.Applied, idx)
	}
}

// foldConf: independent re-implementation of the ConfChange semantics (property text of C10/C13)
func foldConf(cs *pb.ConfState, cc *pb.ConfChangeV2) *pb.ConfState {
	set := func(s []uint64) map[uint64]bool {
		mm := map[uint64]bool{}
		for _, x := range s {
			mm[x] = true
		}
		return mm
	}
	v, l, o, nx := set(cs.GetVoters()), set(cs.GetLearners()), set(cs.GetVotersOutgoing()), set(cs.GetLearnersNext())
	auto := cs.GetAutoLeave()
	leave := cc.GetTransition() == pb.ConfChangeTransitionAuto && len(cc.GetChanges()) == 0
	if leave {
		for id := range nx {
			l[id] = true
		}
		nx = map[uint64]bool{}
		o = map[uint64]bool{}
		auto = false
	} else {
		enter := cc.GetTransition() != pb.ConfChangeTransitionAuto || len(cc.GetChanges()) > 1
		if enter {
			for id := range v {
				o[id] = true
			}
			auto = cc.GetTransition() != pb.ConfChangeTransitionJointExplicit
		}
		for _, ch := range cc.GetChanges() {
			id := ch.GetNodeId()
			if id == 0 {
				continue
			}
			switch ch.GetType() {
			case pb.ConfChangeAddNode:
				v[id] = true
				delete(l, id)
				delete(nx, id)
			case pb.ConfChangeAddLearnerNode:
				if l[id] {
					continue
				}
				delete(v, id)
				delete(nx, id)
				if o[id] {
					nx[id] = true
				} else {
					l[id] = true
				}
			case pb.ConfChangeRemoveNode:
				delete(v, id)
				delete(l, id)
				delete(nx, id)
			}
		}
	}
	lst := func(mm map[uint64]bool) []uint64 {
		var out []uint64
		for k := range mm {
			out = append(out, k)
		}
		sort.Slice(out, func(i, j int) bool { return out[i] < out[j] })
		return out
	}
	return &pb.ConfState{Voters: lst(v), Learners: lst(l), VotersOutgoing: lst(o), LearnersNext: lst(nx), AutoLeave: new(auto)}
}

func (m *Monitor) onConfApplied(n *Node, e *pb.Entry, cs *pb.ConfState) {
	if m.off {
		return
	}
	ob := m.o(n)
	ob.lastConfCh = ob.leaderTick
	// the documented exception of C15: a voter leaves a two-voter set (all voters of the configuration, both
	// halves of a joint one: replacing the only voter through {new}&&{old} is the same situation)
	if pv := n.confAtIndex(e.GetIndex() - 1); pv != nil {
		all := func(c *pb.ConfState) map[uint64]bool {
			s := map[uint64]bool{}
			for _, id := range c.GetVoters() {
				s[id] = true
			}
			for _, id := range c.GetVotersOutgoing() {
				s[id] = true
			}
			return s
		}
		before, after := all(pv), all(cs)
		if len(before) == 2 && len(after) < 2 {
			m.c.Stats["two_voter_shrink"]++
		} else if len(pv.GetVoters()) == 2 && len(cs.GetVoters()) < 2 {
			m.c.Stats["two_voter_shrink"]++
		}
	}
	// (a) the configuration after applying index i is the fold of the committed conf changes
	prev := n.confAtIndex(e.GetIndex() - 1)
	var v2 *pb.ConfChangeV2
	if e.GetType() == pb.EntryConfChange {
		var cc pb.ConfChange
		proto.Unmarshal(e.GetData(), &cc)
		v2 = cc.AsV2()
	} else {
		v2 = &pb.ConfChangeV2{}
		proto.Unmarshal(e.GetData(), v2)
	}
	want := foldConf(prev, v2)
	if want.Equivalent(cs) != nil {
		m.c.violate("C10", "configuration is not the fold of the applied changes", "node %d index %d: from %s by %s expected %s, got %s", n.ID, e.GetIndex(),
			raft.DescribeConfState(prev), raft.DescribeConfChange(v2), raft.DescribeConfState(want), raft.DescribeConfState(cs))
	}
	txt := raft.DescribeConfState(canonCS(cs))
	if p, ok := m.confAt[e.GetIndex()]; ok && p != txt {
		m.c.violate("C10", "nodes derive different configurations", "index %d: node %d has %s, another node had %s", e.GetIndex(), n.ID, txt, p)
	}
	m.confAt[e.GetIndex()] = txt
}

func canonCS(cs *pb.ConfState) *pb.ConfState {
	c := proto.Clone(cs).(*pb.ConfState)
	for _, s := range []*[]uint64{&c.Voters, &c.Learners, &c.VotersOutgoing, &c.LearnersNext} {
		sort.Slice(*s, func(i, j int) bool { return (*s)[i] < (*s)[j] })
	}
	return c
}

// ---------------------------------------------------------------------------------------------
// C15 convergence

func (m *Monitor) onConvergeStart() {}

// converged: would the end-of-suffix check pass now? (evaluated on a scratch violation list)
func (m *Monitor) converged() bool {
	saved := m.c.Violations
	m.c.Violations = nil
	m.onConvergeEnd()
	ok := len(m.c.Violations) == 0
	m.c.Violations = saved
	return ok
}

func (m *Monitor) onConvergeEnd() {
	if m.off {
		return
	}
	c := m.c
	if c.fatal() {
		return
	}
	var al []*Node
	for _, n := range c.alive() {
		al = append(al, n)
	}
	if len(al) == 0 {
		return
	}
	// the committed configuration: the one of the node with the highest applied index
	var ref *Node
	for _, n := range al {
		if ref == nil || n.RN.BasicStatus().Applied > ref.RN.BasicStatus().Applied {
			ref = n
		}
	}
	cs := ref.RN.VerifConfState()
	members := map[uint64]bool{}
	for _, set := range [][]uint64{cs.GetVoters(), cs.GetLearners(), cs.GetVotersOutgoing(), cs.GetLearnersNext()} {
		for _, id := range set {
			members[id] = true
		}
	}
	if m.twoVoterException() {
		c.Stats["c15_two_voter_exception"]++
		return
	}
	leaders := 0
	var lead *Node
	for _, n := range al {
		if members[n.ID] && n.RN.BasicStatus().RaftState == raft.StateLeader {
			leaders++
			lead = n
		}
	}
	if leaders != 1 {
		var sb strings.Builder
		for _, id := range c.IDs {
			n := c.Nodes[id]
			if n.Alive && n.RN != nil {
				st := n.RN.BasicStatus()
				vi := n.RN.VerifInfo()
				fmt.Fprintf(&sb, " [%d %s t%d lead%d c%d a%d unst%d snap%v cfg{%s}]", id, st.RaftState, st.GetTerm(), st.Lead, st.GetCommit(), st.Applied, vi.UnstableEnts, vi.UnstableSnap, raft.DescribeConfState(n.RN.VerifConfState()))
			} else {
				fmt.Fprintf(&sb, " [%d down panic=%q]", id, n.Panic)
			}
		}
		c.violate("C15", "no single leader after the fault-free suffix", "%d leaders among members %v after %d election timeouts:%s", leaders, keys(members), c.O.Converge, sb.String())
		return
	}
	ls := lead.RN.BasicStatus()
	lbase, lents := lead.RN.VerifLogicalLog()
	llast := lbase + uint64(len(lents))
	if cs.GetAutoLeave() {
		c.violate("C15", "auto-leave joint configuration not left", "config %s", raft.DescribeConfState(cs))
	}
	if vi := lead.RN.VerifInfo(); vi.LeadTransferee != 0 {
		c.violate("C15", "leadership transfer still pending", "leader %d transferee %d", lead.ID, vi.LeadTransferee)
	}
	for id := range members {
		n := c.Nodes[id]
		if n == nil || !n.Alive || n.RN == nil {
			c.violate("C15", "member not running at the end of the suffix", "node %d", id)
			continue
		}
		st := n.RN.BasicStatus()
		base, ents := n.RN.VerifLogicalLog()
		last := base + uint64(len(ents))
		if last != llast || st.GetCommit() != ls.GetCommit() || st.Applied != ls.Applied || st.GetCommit() != last {
			c.violate("C15", "member did not converge", "node %d last/commit/applied %d/%d/%d, leader %d %d/%d/%d", id, last, st.GetCommit(), st.Applied, lead.ID, llast, ls.GetCommit(), ls.Applied)
		}
		if vi := n.RN.VerifInfo(); vi.UnstableEnts != 0 || vi.UnstableSnap {
			c.violate("C15", "unstable entries never acknowledged", "node %d still has %d unstable entries", id, vi.UnstableEnts)
		}
	}
	vi := lead.RN.VerifInfo()
	for id, in := range vi.Inflights {
		if id == lead.ID || !members[id] {
			continue
		}
		if in.State != tracker.StateReplicate {
			c.violate("C15", "replication to a member not streaming", "leader %d -> %d in state %s", lead.ID, id, in.State)
		}
	}
}

// twoVoterException recognises the documented exception: a voter was removed or demoted out of a
// two-voter set.
func (m *Monitor) twoVoterException() bool { return m.c.Stats["two_voter_shrink"] > 0 }

func (m *Monitor) final() {}
