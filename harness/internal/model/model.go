// Package model runs the compiled Lean driver (/verif/lean/.lake/build/bin/raftmodel) on a batch of
// protocol lines and returns one output line per input line.
package model

import (
	"bufio"
	"fmt"
	"os"
	"os/exec"
	"path/filepath"
	"strings"
)

// DriverPath locates the compiled driver; VERIF_MODEL overrides.
func DriverPath() string {
	if p := os.Getenv("VERIF_MODEL"); p != "" {
		return p
	}
	root := os.Getenv("VERIF_ROOT")
	if root == "" {
		root = "/verif"
	}
	return filepath.Join(root, "lean", ".lake", "build", "bin", "raftmodel")
}

// Run feeds lines to the driver and returns its output lines (same count, or an error).
func Run(lines []string) ([]string, error) {
	cmd := exec.Command(DriverPath())
	in, err := cmd.StdinPipe()
	if err != nil {
		return nil, err
	}
	out, err := cmd.StdoutPipe()
	if err != nil {
		return nil, err
	}
	cmd.Stderr = os.Stderr
	if err := cmd.Start(); err != nil {
		return nil, err
	}
	go func() {
		w := bufio.NewWriterSize(in, 1<<20)
		for _, l := range lines {
			w.WriteString(l)
			w.WriteByte('\n')
		}
		w.Flush()
		in.Close()
	}()
	res := make([]string, 0, len(lines))
	sc := bufio.NewScanner(out)
	sc.Buffer(make([]byte, 1<<20), 1<<28)
	for sc.Scan() {
		res = append(res, sc.Text())
	}
	if err := cmd.Wait(); err != nil {
		return res, fmt.Errorf("model driver: %v (got %d of %d lines)", err, len(res), len(lines))
	}
	if len(res) != len(lines) {
		return res, fmt.Errorf("model driver returned %d lines for %d inputs", len(res), len(lines))
	}
	return res, nil
}

// FirstDiff returns the index of the first differing line, or -1.
func FirstDiff(a, b []string) int {
	n := len(a)
	if len(b) < n {
		n = len(b)
	}
	for i := 0; i < n; i++ {
		if strings.TrimSpace(a[i]) != strings.TrimSpace(b[i]) {
			return i
		}
	}
	if len(a) != len(b) {
		return n
	}
	return -1
}
