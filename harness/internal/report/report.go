// Package report defines the JSON summary every harness command prints as its last stdout line
// (prefixed "RESULT "), consumed by /verif/bin/check.
package report

import (
	"encoding/json"
	"fmt"
	"os"
	"path/filepath"
	"time"
)

type Violation struct {
	Property string `json:"property"`
	Kind     string `json:"kind"` // "history" | "unit-input" | "broken-correspondence"
	Key      string `json:"key"`  // stable description of the failing shape (matched against known_findings.txt)
	What     string `json:"what"`
	Replay   string `json:"replay"` // path of the replay file
	Concrete bool   `json:"concrete"` // true when a failing input against the real code was found
}

type Result struct {
	Suite         string         `json:"suite"`
	Seed          int64          `json:"seed"`
	Tier          string         `json:"tier"`
	Evaluations   int            `json:"evaluations"`
	Distinct      int            `json:"distinct_nontrivial"`
	Rule          string         `json:"rule"`
	Samples       []string       `json:"samples"`
	Disagreements int            `json:"disagreements"`
	Violations    []Violation    `json:"violations"`
	Stats         map[string]int `json:"stats"`
	WallS         float64        `json:"wall_s"`
	start         time.Time
}

func New(suite, tier string, seed int64) *Result {
	return &Result{Suite: suite, Tier: tier, Seed: seed, Stats: map[string]int{}, start: time.Now()}
}

func (r *Result) Sample(s string) {
	if len(r.Samples) < 5 {
		if len(s) > 400 {
			s = s[:400] + "…"
		}
		r.Samples = append(r.Samples, s)
	}
}

func (r *Result) Emit() {
	r.WallS = time.Since(r.start).Seconds()
	b, _ := json.Marshal(r)
	fmt.Printf("RESULT %s\n", b)
}

// WriteReplay stores a replay document under $VERIF_ROOT/replays and returns its path.
func WriteReplay(name string, doc any) string {
	root := os.Getenv("VERIF_ROOT")
	if root == "" {
		root = "/verif"
	}
	dir := filepath.Join(root, "replays")
	os.MkdirAll(dir, 0o755)
	p := filepath.Join(dir, name)
	b, _ := json.MarshalIndent(doc, "", " ")
	os.WriteFile(p, b, 0o644)
	return p
}
