// unitdiff drives the real library packages (quorum, tracker, confchange, log, readOnly) on generated
// inputs, sends the same inputs to the Lean model driver and diffs the answers (tie X, unit level).
// It also evaluates each input against an independent oracle derived from the property text, so a
// disagreement can be classified as a concrete violation or as a broken correspondence.
package main

import (
	"flag"
	"fmt"
	"io"
	"log"
	"os"

	"go.etcd.io/raft/v3"

	"verif/harness/internal/report"
)

func main() {
	suite := flag.String("suite", "", "quorum|confchange|log|tracker|readonly|sizes")
	tier := flag.String("tier", "quick", "quick|thorough")
	seed := flag.Int64("seed", 1, "PRNG seed")
	replay := flag.String("replay", "", "replay file")
	flag.Parse()
	res := report.New(*suite, *tier, *seed)
	switch *suite {
	case "quorum":
		runQuorum(res, *tier, *seed, *replay)
	case "confchange":
		runConfChange(res, *tier, *seed, *replay)
	case "log":
		raft.SetLogger(&raft.DefaultLogger{Logger: log.New(io.Discard, "", 0)})
		runLog(res, *tier, *seed, *replay)
	case "readonly":
		runReadOnly(res, *tier, *seed, *replay)
	default:
		fmt.Fprintf(os.Stderr, "unknown suite %q\n", *suite)
		os.Exit(2)
	}
	res.Emit()
}
