package main

import (
	"encoding/binary"
	"fmt"
	"math/rand"
	"os"
	"strings"

	"go.etcd.io/raft/v3"
	pb "go.etcd.io/raft/v3/raftpb"

	"verif/harness/internal/model"
	"verif/harness/internal/report"
	"verif/harness/internal/sim"
)

// runReadOnly: random programs over the read-only bookkeeping of read_only.go (addRequest, recvAck,
// maybeAdvance under simple and joint voter sets, heartbeatCtx), compared operation by operation with the
// Lean model, and checked against an oracle written from the text of C11: a read is released only once, in
// request order, and only when in EVERY voter set a strict majority acknowledged a heartbeat context at or
// beyond the read's sequence number.
func runReadOnly(res *report.Result, tier string, seed int64, replay string) {
	nprog := 600
	if tier == "thorough" {
		nprog = 20000
	}
	rng := rand.New(rand.NewSource(seed))
	var lines, impl []string
	ops := map[string]int{}
	fail := func(kind, key, what string, doc map[string]any) {
		if len(res.Violations) >= 3 {
			return
		}
		doc["property"] = "C11"
		doc["kind"] = kind
		p := report.WriteReplay(fmt.Sprintf("C11_ro_%s_%d.json", kind, len(res.Violations)), doc)
		res.Violations = append(res.Violations, report.Violation{Property: "C11", Kind: kind, Key: key, What: what, Replay: p, Concrete: kind == "unit-input"})
	}
	idPool := []uint64{1, 2, 3, 4, 5, 6, 7, 0x8000000000000001, 0xA000000000000003}
	pickSet := func(maxN int) []uint64 {
		n := rng.Intn(maxN + 1)
		perm := rng.Perm(len(idPool))
		var s []uint64
		for _, k := range perm[:n] {
			s = append(s, idPool[k])
		}
		return s
	}
	for p := 0; p < nprog; p++ {
		ro := raft.VerifNewReadOnly()
		lines = append(lines, fmt.Sprintf("ro %d new", p))
		impl = append(impl, "ok | "+ro.Dump())
		// the oracle's view
		acked := map[uint64]uint64{} // voter -> highest acknowledged sequence number
		nreq := uint64(0)            // requests added so far
		released := uint64(0)        // requests released so far
		var prog []string
		nops := 6 + rng.Intn(20)
		for k := 0; k < nops; k++ {
			var line, out string
			panicked := false
			call := func(f func() string) {
				defer func() {
					if r := recover(); r != nil {
						panicked = true
						out = "panic"
					}
				}()
				out = f()
			}
			switch r := rng.Intn(100); {
			case r < 30:
				ops["add"]++
				commit := uint64(rng.Intn(50))
				if rng.Intn(10) == 0 {
					commit += 1 << 63
				}
				m := &pb.Message{Type: pb.MsgReadIndex.Enum(), From: new(idPool[rng.Intn(len(idPool))]),
					Entries: []*pb.Entry{{Data: []byte(fmt.Sprintf("c%d", rng.Intn(1000)))}}}
				line = fmt.Sprintf("ro %d add %d %s", p, commit, sim.TokMsg(m))
				call(func() string { ro.AddRequest(commit, m); return "ok" })
				nreq++
			case r < 65:
				ops["ack"]++
				from := idPool[rng.Intn(len(idPool))]
				var ctx []byte
				v := uint64(0)
				switch rng.Intn(12) {
				case 0:
					ctx = nil
				case 1:
					ctx = []byte{}
				case 2:
					ctx = make([]byte, 1+rng.Intn(7)) // malformed: shorter than 8 bytes
				default:
					v = uint64(rng.Intn(int(nreq) + 3))
					ctx = binary.LittleEndian.AppendUint64(nil, v)
					if rng.Intn(8) == 0 {
						ctx = append(ctx, 0xff) // trailing bytes are ignored
					}
				}
				line = fmt.Sprintf("ro %d ack %d %s", p, from, raft.VerifFmtBytes(ctx))
				call(func() string { ro.RecvAck(from, ctx); return "ok" })
				if !panicked && len(ctx) >= 8 && v > acked[from] {
					acked[from] = v
				}
			case r < 90:
				ops["adv"]++
				c0, c1 := pickSet(5), []uint64(nil)
				if rng.Intn(2) == 0 {
					c1 = pickSet(5)
				}
				if len(c0) == 0 && rng.Intn(4) != 0 {
					c0 = []uint64{idPool[rng.Intn(len(idPool))]}
				}
				line = fmt.Sprintf("ro %d adv %s %s", p, tokIDList(c0), tokIDList(c1))
				var rel []string
				call(func() string { rel = ro.MaybeAdvance(c0, c1); return "[" + strings.Join(rel, ",") + "]" })
				if !panicked {
					// oracle: the i-th released request has sequence number released+i+1; every one of them must be
					// acknowledged by a strict majority of every non-empty voter set
					for i := range rel {
						s := released + uint64(i) + 1
						for _, set := range [][]uint64{c0, c1} {
							if len(set) == 0 {
								continue
							}
							n := 0
							for _, id := range set {
								if acked[id] >= s {
									n++
								}
							}
							if n < len(set)/2+1 {
								fail("unit-input", "read released without a quorum of every voter set",
									fmt.Sprintf("program %d: read #%d released under voters %v / %v with acks %v", p, s, c0, c1, acked),
									map[string]any{"program": append(append([]string{}, prog...), line), "released": rel})
							}
						}
					}
					released += uint64(len(rel))
					if released > nreq {
						fail("unit-input", "more reads released than requested", fmt.Sprintf("program %d", p), map[string]any{"program": append(append([]string{}, prog...), line)})
					}
				}
			default:
				ops["hb"]++
				line = fmt.Sprintf("ro %d hb", p)
				call(func() string { return raft.VerifFmtBytes(ro.HeartbeatCtx()) })
			}
			prog = append(prog, line)
			lines = append(lines, line)
			if panicked {
				impl = append(impl, "panic")
				ops["panic"]++
				break
			}
			impl = append(impl, out+" | "+ro.Dump())
		}
	}
	res.Rule = "random programs (6-25 operations) over readOnly: addRequest, recvAck (valid, absent, empty, malformed, over-long contexts), maybeAdvance under simple and joint voter sets of 0-5 ids (incl. ids >= 2^63), heartbeatCtx; every operation compared with the Lean model (answer + full dump); released reads checked against the quorum oracle from the text of C11"
	res.Evaluations = len(lines)
	for k, v := range ops {
		res.Stats["op_"+k] = v
	}
	out, err := model.Run(lines)
	if err != nil {
		fmt.Fprintln(os.Stderr, "model:", err)
		fail("broken-correspondence", "model driver failed", err.Error(), map[string]any{})
		return
	}
	seen := map[string]bool{}
	skip := false
	for i := range lines {
		if strings.HasSuffix(lines[i], " new") {
			skip = false
		}
		if skip {
			continue
		}
		f := strings.SplitN(lines[i], " ", 4)
		seen[strings.Join(f[2:], " ")] = true
		if i%(len(lines)/4+1) == 0 {
			res.Sample(lines[i] + " -> " + impl[i])
		}
		got := out[i]
		if impl[i] == "panic" {
			if !strings.HasPrefix(got, "panic") {
				res.Disagreements++
				fail("broken-correspondence", "model differs from implementation", fmt.Sprintf("%s: impl panics, model %s", lines[i], got), map[string]any{"line": lines[i], "model": got})
			}
			skip = true
			continue
		}
		if got != impl[i] {
			res.Disagreements++
			var ctx []string
			for k := max(0, i-10); k < i; k++ {
				ctx = append(ctx, lines[k])
			}
			fail("broken-correspondence", "model differs from implementation", fmt.Sprintf("%s: impl [%s] model [%s]", lines[i], impl[i], got),
				map[string]any{"line": lines[i], "implementation": impl[i], "model": got, "previous": ctx, "broken": "correspondence stream unitdiff/readonly: RaftVerif.ReadOnly vs read_only.go"})
			skip = true
		}
	}
	res.Distinct = len(seen)
}

func tokIDList(ids []uint64) string {
	if len(ids) == 0 {
		return "-"
	}
	p := make([]string, len(ids))
	for i, x := range ids {
		p[i] = fmt.Sprint(x)
	}
	return strings.Join(p, ",")
}
