package main

import (
	"fmt"
	"math/rand"
	"os"
	"strings"

	"go.etcd.io/raft/v3"
	pb "go.etcd.io/raft/v3/raftpb"

	"verif/harness/internal/model"
	"verif/harness/internal/report"
)

// log suite (C18, C08): random operation programs over MemoryStorage + raftLog through the VerifLog
// wrappers; every operation is also sent to the Lean model (`lg` commands of the driver) and the
// answers plus the full log/storage dumps are compared. Independently of the model, an abstract list
// with a compacted prefix (the oracle derived from the text of C18) checks the storage queries.

type alog struct { // abstract log: base (index, term) + entries base+1…
	base, baseTerm uint64
	ents           []*pb.Entry
}

func (a *alog) last() uint64 { return a.base + uint64(len(a.ents)) }
func (a *alog) term(i uint64) (uint64, string) {
	if i < a.base {
		return 0, "ErrCompacted"
	}
	if i > a.last() {
		return 0, "ErrUnavailable"
	}
	if i == a.base {
		return a.baseTerm, ""
	}
	return a.ents[i-a.base-1].GetTerm(), ""
}

func absOfStorage(ms *raft.MemoryStorage) *alog {
	fi, _ := ms.FirstIndex()
	li, _ := ms.LastIndex()
	t, _ := ms.Term(fi - 1)
	a := &alog{base: fi - 1, baseTerm: t}
	if li >= fi {
		a.ents, _ = ms.Entries(fi, li+1, ^uint64(0))
	}
	return a
}

func tokEnts(es []*pb.Entry) string {
	var sb strings.Builder
	fmt.Fprintf(&sb, "%d", len(es))
	for _, e := range es {
		sb.WriteByte(' ')
		sb.WriteString(raft.VerifFmtEntry(e))
	}
	return sb.String()
}

func tokSnapshot(s *pb.Snapshot) string {
	if s == nil {
		return "-"
	}
	cs := s.GetMetadata().GetConfState()
	return fmt.Sprintf("S %d %d %s %s %s %s %d %s", s.GetMetadata().GetIndex(), s.GetMetadata().GetTerm(), inSet(cs.GetVoters()),
		inSet(cs.GetVotersOutgoing()), inSet(cs.GetLearners()), inSet(cs.GetLearnersNext()), b2i(cs.GetAutoLeave()), raft.VerifFmtBytes(s.Data))
}

func storageTok(ms *raft.MemoryStorage) string {
	hs, _, _ := ms.InitialState()
	h := "-"
	if hs != nil {
		h = raft.VerifFmtHardState(hs)
	}
	snap, _ := ms.Snapshot()
	a := absOfStorage(ms)
	dummy := &pb.Entry{Term: new(a.baseTerm), Index: new(a.base)}
	return fmt.Sprintf("%s %s %s", h, tokSnapshot(snap), tokEnts(append([]*pb.Entry{dummy}, a.ents...)))
}

func errName(err error) string {
	switch err {
	case raft.ErrCompacted:
		return "ErrCompacted"
	case raft.ErrUnavailable:
		return "ErrUnavailable"
	case raft.ErrSnapOutOfDate:
		return "ErrSnapOutOfDate"
	}
	return err.Error()
}

type logProg struct {
	lines []string
	outs  []string
}

func runLog(res *report.Result, tier string, seed int64, replay string) {
	nprog := 1500
	if tier == "thorough" {
		nprog = 40000
	}
	rng := rand.New(rand.NewSource(seed))
	var lines, impl []string
	ops := map[string]int{}
	fail := func(kind, key, what string, doc map[string]any) {
		if len(res.Violations) >= 3 {
			return
		}
		doc["property"] = "C18"
		doc["kind"] = kind
		p := report.WriteReplay(fmt.Sprintf("C18_%s_%d.json", kind, len(res.Violations)), doc)
		res.Violations = append(res.Violations, report.Violation{Property: "C18", Kind: kind, Key: key, What: what, Replay: p, Concrete: kind == "unit-input"})
	}
	for p := 0; p < nprog; p++ {
		ms := raft.NewMemoryStorage()
		// random initial storage: optional snapshot base and entries
		base := uint64(rng.Intn(4))
		term := uint64(1)
		if base > 0 {
			ms.ApplySnapshot(&pb.Snapshot{Metadata: &pb.SnapshotMetadata{Index: new(base), Term: new(term), ConfState: &pb.ConfState{Voters: []uint64{1}}}})
		}
		mkEnts := func(from uint64, k int, t uint64) []*pb.Entry {
			var es []*pb.Entry
			for i := 0; i < k; i++ {
				if rng.Intn(3) == 0 {
					t++
				}
				e := &pb.Entry{Term: new(t), Index: new(from + uint64(i))}
				switch rng.Intn(4) {
				case 0:
				case 1:
					e.Data = make([]byte, rng.Intn(40))
				default:
					e.Data = []byte(fmt.Sprintf("d%d", rng.Intn(100)))
				}
				if rng.Intn(8) == 0 {
					e.Type = pb.EntryType(rng.Intn(3)).Enum()
				}
				es = append(es, e)
			}
			return es
		}
		ms.Append(mkEnts(base+1, rng.Intn(5), term))
		maxApply := []uint64{1, 20, 60, 1 << 30}[rng.Intn(4)]
		k := p % 50
		lines = append(lines, fmt.Sprintf("lg %d new %d %s", k, maxApply, storageTok(ms)))
		vl := raft.VerifNewLog(ms, maxApply)
		dump := func() string { return vl.Dump() + " | " + raft.VerifFmtStorage(ms) }
		impl = append(impl, "ok | "+dump())
		dead := false
		for step := 0; step < 40 && !dead; step++ {
			lastI := vl.LastIndex()
			firstI := vl.FirstIndex()
			ri := func() uint64 { // an index in the available range (mostly) or just outside it
				if rng.Intn(7) != 0 && lastI+1 >= firstI {
					lo := firstI
					if lo > 0 {
						lo--
					}
					return lo + uint64(rng.Int63n(int64(lastI-lo+1)))
				}
				lo := int64(firstI) - 2
				if lo < 0 {
					lo = 0
				}
				return uint64(lo + rng.Int63n(int64(lastI)+3-lo+1))
			}
			rq := func() uint64 { // a query index: as ri, or far beyond the log (a difference that does not fit an int)
				if rng.Intn(12) == 0 {
					return 1<<63 + uint64(rng.Intn(3))
				}
				return ri()
			}
			rt := func() uint64 { return uint64(1 + rng.Intn(5)) }
			termOf := func(i uint64) uint64 {
				if t, err := vl.Term(i); err == nil && rng.Intn(4) != 0 {
					return t
				}
				return rt()
			}
			var line, out string
			call := func(f func() string) {
				func() {
					defer func() {
						if r := recover(); r != nil {
							out = "panic"
							dead = true
						}
					}()
					out = f()
				}()
			}
			ents := func(es []*pb.Entry, err error) string {
				if err != nil {
					return errName(err)
				}
				return raft.VerifFmtEntries(es)
			}
			opn := rng.Intn(34)
			switch opn {
			case 0, 1:
				from := lastI + 1
				if rng.Intn(4) == 0 {
					from = ri()
					if from == 0 {
						from = 1
					}
				}
				es := mkEnts(from, 1+rng.Intn(3), termOf(from-1))
				line = "append " + tokEnts(es)
				call(func() string { return fmt.Sprint(vl.Append(es)) })
			case 2, 3, 4:
				prev := ri()
				pt := termOf(prev)
				es := mkEnts(prev+1, rng.Intn(4), max(pt, 1))
				c := ri()
				line = fmt.Sprintf("maybeappend %d %d %d %s", prev, pt, c, tokEnts(es))
				call(func() string {
					li, ok := vl.MaybeAppend(9, prev, pt, c, es)
					return fmt.Sprintf("%d %v", li, ok)
				})
			case 5:
				i := ri()
				es := mkEnts(i, rng.Intn(4), termOf(i))
				line = "findconflict " + tokEnts(es)
				call(func() string { return fmt.Sprint(vl.FindConflict(es)) })
			case 6:
				i, t := ri(), rt()
				line = fmt.Sprintf("findconflictbyterm %d %d", i, t)
				call(func() string { a, b := vl.FindConflictByTerm(i, t); return fmt.Sprintf("%d %d", a, b) })
			case 7, 8, 9: // stable acknowledgement, possibly stale / ABA
				i := ri()
				t := termOf(i)
				line = fmt.Sprintf("stableto %d %d", i, t)
				call(func() string { vl.StableTo(i, t); return "ok" })
			case 10:
				i := ri()
				line = fmt.Sprintf("stablesnapto %d", i)
				call(func() string { vl.StableSnapTo(i); return "ok" })
			case 11, 12:
				line = "acceptunstable"
				call(func() string { vl.AcceptUnstable(); return "ok" })
			case 13:
				i := vl.Committed() + uint64(rng.Intn(4))
				s := &pb.Snapshot{Metadata: &pb.SnapshotMetadata{Index: new(i), Term: new(termOf(i)), ConfState: &pb.ConfState{Voters: []uint64{1, 2}}}}
				if i == 0 {
					continue
				}
				line = "restore " + tokSnapshot(s)
				call(func() string { vl.Restore(s); return "ok" })
			case 14, 15:
				i := ri()
				line = fmt.Sprintf("committo %d", i)
				call(func() string { vl.CommitTo(i); return "ok" })
			case 16:
				i, t := ri(), rt()
				line = fmt.Sprintf("maybecommit %d %d", i, t)
				call(func() string { return fmt.Sprint(b2i(vl.MaybeCommit(i, t))) })
			case 17, 18:
				a := rng.Intn(2) == 0
				line = fmt.Sprintf("nextcommitted %d", b2i(a))
				var got []*pb.Entry
				call(func() string { got = vl.NextCommittedEnts(a); return raft.VerifFmtEntries(got) })
				lines = append(lines, fmt.Sprintf("lg %d %s", k, line))
				impl = append(impl, out+" | "+dump())
				ops["nextcommitted"]++
				if !dead && len(got) > 0 {
					i := got[len(got)-1].GetIndex()
					sz := raft.VerifEntsSize(got)
					line = fmt.Sprintf("acceptapplying %d %d %d", i, sz, b2i(a))
					call(func() string { vl.AcceptApplying(i, sz, a); return "ok" })
				} else {
					continue
				}
			case 19:
				i := vl.Applied() + uint64(rng.Intn(3))
				sz := uint64(rng.Intn(50))
				line = fmt.Sprintf("appliedto %d %d", i, sz)
				call(func() string { vl.AppliedTo(i, sz); return "ok" })
			case 20, 21:
				i := rq()
				line = fmt.Sprintf("term %d", i)
				call(func() string {
					t, err := vl.Term(i)
					if err != nil {
						return errName(err)
					}
					return fmt.Sprint(t)
				})
			case 22, 23:
				lo := ri()
				hi := lo + uint64(rng.Intn(4))
				if hi > lastI+1 && rng.Intn(8) != 0 {
					hi = lastI + 1
					if lo > hi {
						lo = hi
					}
				}
				mx := []uint64{0, 10, 30, 1 << 30}[rng.Intn(4)]
				line = fmt.Sprintf("slice %d %d %d", lo, hi, mx)
				call(func() string { return ents(vl.Slice(lo, hi, mx)) })
			case 24:
				i := ri()
				mx := []uint64{0, 25, 1 << 30}[rng.Intn(3)]
				line = fmt.Sprintf("entries %d %d", i, mx)
				call(func() string { return ents(vl.Entries(i, mx)) })
			case 25:
				line = "nextunstable"
				call(func() string { return raft.VerifFmtEntries(vl.NextUnstableEnts()) })
			case 26: // the storage thread persists what was handed out
				es := vl.NextUnstableEnts()
				if len(es) == 0 || rng.Intn(2) == 0 {
					es = mkEnts(ri()+1, 1+rng.Intn(2), rt())
				}
				line = "st-append " + tokEnts(es)
				call(func() string {
					if err := ms.Append(es); err != nil {
						return err.Error()
					}
					return "ok"
				})
			case 27:
				i := ri()
				line = fmt.Sprintf("st-compact %d", i)
				call(func() string {
					if err := ms.Compact(i); err != nil {
						return errName(err)
					}
					return "ok"
				})
			case 28:
				i := ri()
				cs := &pb.ConfState{Voters: []uint64{1, 3}}
				line = fmt.Sprintf("st-mksnap %d %s %s", i, tokSnapshot(&pb.Snapshot{Metadata: &pb.SnapshotMetadata{ConfState: cs}}), "x73")
				call(func() string {
					s, err := ms.CreateSnapshot(i, cs, []byte("s"))
					if err != nil {
						return errName(err)
					}
					return raft.VerifFmtSnapshot(s)
				})
			case 29:
				i := ri()
				s := &pb.Snapshot{Metadata: &pb.SnapshotMetadata{Index: new(i), Term: new(rt()), ConfState: &pb.ConfState{Voters: []uint64{2}}}}
				line = "st-applysnap " + tokSnapshot(s)
				call(func() string {
					if err := ms.ApplySnapshot(s); err != nil {
						return errName(err)
					}
					return "ok"
				})
			case 30:
				i := rq()
				line = fmt.Sprintf("sterm %d", i)
				a := absOfStorage(ms)
				call(func() string {
					t, err := ms.Term(i)
					got := fmt.Sprint(t)
					if err != nil {
						got = errName(err)
					}
					// oracle from the property text: compacted below the base, unavailable above the last index
					wt, werr := a.term(i)
					want := fmt.Sprint(wt)
					if werr != "" {
						want = werr
					}
					if got != want {
						fail("unit-input", "storage Term differs from the abstract log", fmt.Sprintf("Term(%d) = %s, abstract log says %s; storage %s", i, got, want, raft.VerifFmtStorage(ms)), map[string]any{"storage": raft.VerifFmtStorage(ms), "index": i})
					}
					return got
				})
			case 31:
				lo := ri()
				hi := lo + uint64(rng.Intn(4))
				mx := []uint64{0, 10, 1 << 30}[rng.Intn(3)]
				line = fmt.Sprintf("sents %d %d %d", lo, hi, mx)
				a := absOfStorage(ms)
				call(func() string {
					es, err := ms.Entries(lo, hi, mx)
					if err == nil {
						// non-empty prefix of the abstract range, never an entry outside it
						if hi > lo && len(es) == 0 {
							fail("unit-input", "storage Entries returned an empty prefix", fmt.Sprintf("Entries(%d,%d,%d) on %s", lo, hi, mx, raft.VerifFmtStorage(ms)), map[string]any{})
						}
						for j, e := range es {
							if e.GetIndex() != lo+uint64(j) || e.GetIndex() <= a.base || e.GetIndex() > a.last() {
								fail("unit-input", "storage Entries returned an entry outside the requested range", fmt.Sprintf("Entries(%d,%d,%d) -> %s", lo, hi, mx, raft.VerifFmtEntries(es)), map[string]any{})
							}
						}
					} else if (err == raft.ErrCompacted) != (lo <= a.base) {
						fail("unit-input", "storage Entries ErrCompacted outside the compacted range", fmt.Sprintf("Entries(%d,%d) base %d: %v", lo, hi, a.base, err), map[string]any{})
					}
					return ents(es, err)
				})
			case 32:
				i, t := ri(), rt()
				line = fmt.Sprintf("isuptodate %d %d", i, t)
				call(func() string { return fmt.Sprint(b2i(vl.IsUpToDate(i, t))) })
			case 33:
				es := mkEnts(ri(), rng.Intn(5), rt())
				mx := []uint64{0, 12, 40}[rng.Intn(3)]
				line = fmt.Sprintf("limitsize %d %s", mx, tokEnts(es))
				call(func() string {
					r := raft.VerifLimitSize(es, mx)
					if len(es) > 0 && len(r) == 0 {
						fail("unit-input", "limitSize returned an empty prefix", line, map[string]any{})
					}
					return raft.VerifFmtEntries(r)
				})
			}
			ops[strings.Fields(line)[0]]++
			lines = append(lines, fmt.Sprintf("lg %d %s", k, line))
			if dead {
				impl = append(impl, "panic")
			} else {
				impl = append(impl, out+" | "+dump())
			}
		}
	}
	res.Rule = "random 25-operation programs over MemoryStorage + raftLog (append, maybeAppend, stale/ABA stableTo, acceptUnstable, restore, commitTo, nextCommittedEnts+acceptApplying, appliedTo, storage Append/Compact/CreateSnapshot/ApplySnapshot and every query with in- and out-of-range arguments) from random compacted storages; each operation compared with the Lean model (answer + full log and storage dump); storage queries also checked against an abstract list; distinct = distinct (program position, operation) lines"
	res.Evaluations = len(lines)
	for k, v := range ops {
		res.Stats["op_"+k] = v
	}
	out, err := model.Run(lines)
	if err != nil {
		fmt.Fprintln(os.Stderr, "model:", err)
		fail("broken-correspondence", "model driver failed", err.Error(), map[string]any{})
		return
	}
	seen := map[string]bool{}
	skipUntilNew := false
	for i := range lines {
		isNew := strings.Contains(lines[i], " new ")
		if isNew {
			skipUntilNew = false
		}
		if skipUntilNew {
			continue
		}
		seen[lines[i]] = true
		if i%(len(lines)/4+1) == 0 {
			res.Sample(lines[i] + " -> " + impl[i])
		}
		got := out[i]
		if impl[i] == "panic" {
			// after a panic only the fact is compared; the program ends
			if !strings.HasPrefix(got, "panic") {
				res.Disagreements++
				fail("broken-correspondence", "model differs from implementation", fmt.Sprintf("%s: impl panics, model %s", lines[i], got), map[string]any{"line": lines[i], "model": got})
			}
			skipUntilNew = true
			continue
		}
		if got != impl[i] {
			res.Disagreements++
			ctx := []string{}
			for k := max(0, i-8); k < i; k++ {
				ctx = append(ctx, lines[k])
			}
			fail("broken-correspondence", "model differs from implementation", fmt.Sprintf("%s: impl [%s] model [%s]", lines[i], impl[i], got),
				map[string]any{"line": lines[i], "implementation": impl[i], "model": got, "previous": ctx, "broken": "correspondence stream unitdiff/log: RaftVerif.RaftLog / MemoryStorage vs log.go, log_unstable.go, storage.go"})
			skipUntilNew = true
		}
	}
	res.Distinct = len(seen)
}
