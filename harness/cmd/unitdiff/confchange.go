package main

import (
	"fmt"
	"math/rand"
	"os"
	"sort"
	"strings"

	"go.etcd.io/raft/v3/confchange"
	"go.etcd.io/raft/v3/quorum"
	pb "go.etcd.io/raft/v3/raftpb"
	"go.etcd.io/raft/v3/tracker"

	"verif/harness/internal/model"
	"verif/harness/internal/report"
)

// ccState is a tracker state in canonical form.
type ccState struct {
	V, O, L, N []uint64
	ONil       bool // Voters[1] == nil
	LNil, NNil bool
	Auto       bool
	Prs        map[uint64]ccPr
}
type ccPr struct {
	Learner     bool
	Match, Next uint64
	Active      bool
}

func setOf(m map[uint64]struct{}) []uint64 {
	var s []uint64
	for id := range m {
		s = append(s, id)
	}
	sort.Slice(s, func(i, j int) bool { return s[i] < s[j] })
	return s
}

func stateOf(cfg tracker.Config, prs tracker.ProgressMap) ccState {
	st := ccState{V: setOf(cfg.Voters[0]), O: setOf(cfg.Voters[1]), L: setOf(cfg.Learners), N: setOf(cfg.LearnersNext),
		ONil: cfg.Voters[1] == nil, LNil: cfg.Learners == nil, NNil: cfg.LearnersNext == nil, Auto: cfg.AutoLeave, Prs: map[uint64]ccPr{}}
	for id, pr := range prs {
		st.Prs[id] = ccPr{pr.IsLearner, pr.Match, pr.Next, pr.RecentActive}
	}
	return st
}

func optSet(s []uint64, isNil bool) string {
	if isNil {
		return "-"
	}
	if len(s) == 0 {
		return "{}"
	}
	return "{" + strings.Trim(strings.Join(strings.Fields(fmt.Sprint(s)), ","), "[]") + "}"
}

func (st ccState) result() string {
	var ids []uint64
	for id := range st.Prs {
		ids = append(ids, id)
	}
	sort.Slice(ids, func(i, j int) bool { return ids[i] < ids[j] })
	p := make([]string, len(ids))
	for i, id := range ids {
		pr := st.Prs[id]
		p[i] = fmt.Sprintf("%d:%d:%d:%d:%d", id, b2i(pr.Learner), pr.Match, pr.Next, b2i(pr.Active))
	}
	return fmt.Sprintf("ok v=%s o=%s l=%s n=%s a=%d p=%s", optSet(st.V, false), optSet(st.O, st.ONil), optSet(st.L, st.LNil), optSet(st.N, st.NNil), b2i(st.Auto), strings.Join(p, ","))
}

func b2i(b bool) int {
	if b {
		return 1
	}
	return 0
}

func inSet(s []uint64) string {
	if len(s) == 0 {
		return "-"
	}
	return strings.Trim(strings.Join(strings.Fields(fmt.Sprint(s)), ","), "[]")
}

func (st ccState) input(last uint64, mi int) string {
	var ids []uint64
	for id := range st.Prs {
		ids = append(ids, id)
	}
	sort.Slice(ids, func(i, j int) bool { return ids[i] < ids[j] })
	p := make([]string, len(ids))
	for i, id := range ids {
		pr := st.Prs[id]
		p[i] = fmt.Sprintf("%d:%d:%d:%d:%d", id, b2i(pr.Learner), pr.Match, pr.Next, b2i(pr.Active))
	}
	ps := strings.Join(p, ",")
	if ps == "" {
		ps = "-"
	}
	o := inSet(st.O)
	if st.ONil {
		o = "-"
	}
	return fmt.Sprintf("%s %s %s %s %d %s %d %d", inSet(st.V), o, inSet(st.L), inSet(st.N), b2i(st.Auto), ps, last, mi)
}

func (st ccState) tracker(mi int) tracker.ProgressTracker {
	t := tracker.MakeProgressTracker(mi, 0)
	mk := func(s []uint64, isNil bool) map[uint64]struct{} {
		if isNil {
			return nil
		}
		m := map[uint64]struct{}{}
		for _, id := range s {
			m[id] = struct{}{}
		}
		return m
	}
	t.Voters = quorum.JointConfig{mk(st.V, false), mk(st.O, st.ONil)}
	t.Learners = mk(st.L, st.LNil)
	t.LearnersNext = mk(st.N, st.NNil)
	t.AutoLeave = st.Auto
	for id, pr := range st.Prs {
		t.Progress[id] = &tracker.Progress{IsLearner: pr.Learner, Match: pr.Match, Next: pr.Next, RecentActive: pr.Active,
			Inflights: tracker.NewInflights(mi, 0)}
	}
	return t
}

type ccOp struct {
	Kind    string // simple | enter | leave | restore
	Auto    bool
	Changes []*pb.ConfChangeSingle
	CS      *pb.ConfState
}

func (o ccOp) args() string {
	switch o.Kind {
	case "simple":
		return "simple " + chgs(o.Changes)
	case "enter":
		return fmt.Sprintf("enter %d %s", b2i(o.Auto), chgs(o.Changes))
	case "leave":
		return "leave"
	}
	cs := o.CS
	return fmt.Sprintf("restore %s %s %s %s %d", inSet(cs.GetVoters()), inSet(cs.GetVotersOutgoing()), inSet(cs.GetLearners()), inSet(cs.GetLearnersNext()), b2i(cs.GetAutoLeave()))
}

func chgs(cs []*pb.ConfChangeSingle) string {
	if len(cs) == 0 {
		return "-"
	}
	p := make([]string, len(cs))
	for i, c := range cs {
		p[i] = strings.ReplaceAll(pb.ConfChangesToString([]*pb.ConfChangeSingle{c}), " ", "")
	}
	return strings.Join(p, ",")
}

// invariant of C13, directly from the property text
func ccInvariant(st ccState, before *ccState, kind string) string {
	in := func(s []uint64, id uint64) bool {
		for _, x := range s {
			if x == id {
				return true
			}
		}
		return false
	}
	for _, id := range st.L {
		if in(st.V, id) || in(st.O, id) {
			return fmt.Sprintf("learner %d is also a voter", id)
		}
	}
	for _, id := range st.N {
		if !in(st.O, id) {
			return fmt.Sprintf("staged learner %d is not an outgoing voter", id)
		}
	}
	members := map[uint64]bool{}
	for _, s := range [][]uint64{st.V, st.O, st.L, st.N} {
		for _, id := range s {
			members[id] = true
			if _, ok := st.Prs[id]; !ok {
				return fmt.Sprintf("member %d has no progress record", id)
			}
		}
	}
	for id := range st.Prs {
		if !members[id] {
			return fmt.Sprintf("non-member %d has a progress record", id)
		}
	}
	if len(st.V) == 0 {
		return "no voter remains"
	}
	if kind == "simple" && before != nil {
		d := 0
		for _, id := range st.V {
			if !in(before.V, id) {
				d++
			}
		}
		for _, id := range before.V {
			if !in(st.V, id) {
				d++
			}
		}
		if d > 1 {
			return fmt.Sprintf("simple change altered the voter set by %d", d)
		}
	}
	return ""
}

func applyOp(st ccState, op ccOp, last uint64, mi int) (ccState, error, string) {
	t := st.tracker(mi)
	before := stateOf(t.Config, t.Progress)
	ch := confchange.Changer{Tracker: t, LastIndex: last}
	var cfg tracker.Config
	var prs tracker.ProgressMap
	var err error
	switch op.Kind {
	case "simple":
		cfg, prs, err = ch.Simple(op.Changes...)
	case "enter":
		cfg, prs, err = ch.EnterJoint(op.Auto, op.Changes...)
	case "leave":
		cfg, prs, err = ch.LeaveJoint()
	case "restore":
		cfg, prs, err = confchange.Restore(ch, op.CS)
	}
	after := stateOf(t.Config, t.Progress)
	mut := ""
	if before.result() != after.result() {
		mut = "the input tracker was modified by the call"
	}
	if err != nil {
		return ccState{}, err, mut
	}
	return stateOf(cfg, prs), nil, mut
}

func allChanges(ids []uint64) []*pb.ConfChangeSingle {
	var out []*pb.ConfChangeSingle
	for _, id := range ids {
		for _, t := range []pb.ConfChangeType{pb.ConfChangeAddNode, pb.ConfChangeAddLearnerNode, pb.ConfChangeRemoveNode, pb.ConfChangeUpdateNode} {
			out = append(out, &pb.ConfChangeSingle{Type: t.Enum(), NodeId: new(id)})
		}
	}
	return out
}

func runConfChange(res *report.Result, tier string, seed int64, replay string) {
	ids := []uint64{0, 1, 2, 3}
	maxStates := 400
	if tier == "thorough" {
		ids = []uint64{0, 1, 2, 3, 4}
		maxStates = 4000
	}
	singles := allChanges(ids)
	var ops []ccOp
	for _, a := range singles {
		ops = append(ops, ccOp{Kind: "simple", Changes: []*pb.ConfChangeSingle{a}})
		for _, auto := range []bool{false, true} {
			ops = append(ops, ccOp{Kind: "enter", Auto: auto, Changes: []*pb.ConfChangeSingle{a}})
		}
		for _, b := range singles {
			ops = append(ops, ccOp{Kind: "simple", Changes: []*pb.ConfChangeSingle{a, b}})
			ops = append(ops, ccOp{Kind: "enter", Auto: a.GetNodeId()%2 == 0, Changes: []*pb.ConfChangeSingle{a, b}})
		}
	}
	ops = append(ops, ccOp{Kind: "leave"}, ccOp{Kind: "simple"}, ccOp{Kind: "enter", Auto: true})
	rng := rand.New(rand.NewSource(seed))
	const last, mi = 7, 4
	start := ccState{V: []uint64{1}, ONil: true, LNil: true, NNil: true, Prs: map[uint64]ccPr{1: {false, 3, 4, true}}}
	seen := map[string]bool{start.result(): true}
	queue := []ccState{start}
	var lines, impl []string
	type edge struct {
		st ccState
		op ccOp
	}
	var edges []edge
	fail := func(kind, key, what string, doc map[string]any) {
		if len(res.Violations) >= 3 {
			return
		}
		doc["property"] = "C13"
		doc["kind"] = kind
		p := report.WriteReplay(fmt.Sprintf("C13_%s_%d.json", kind, len(res.Violations)), doc)
		res.Violations = append(res.Violations, report.Violation{Property: "C13", Kind: kind, Key: key, What: what, Replay: p, Concrete: kind == "unit-input"})
	}
	for len(queue) > 0 && len(seen) < maxStates {
		st := queue[0]
		queue = queue[1:]
		for _, op := range ops {
			next, err, mut := applyOp(st, op, last, mi)
			line := "cc " + strings.SplitN(op.args(), " ", 2)[0] + " " + st.input(last, mi) + argsTail(op.args())
			lines = append(lines, line)
			edges = append(edges, edge{st, op})
			if mut != "" {
				fail("unit-input", "rejected or accepted change modified its input", mut+": "+line, map[string]any{"line": line})
			}
			if err != nil {
				impl = append(impl, "err")
				continue
			}
			impl = append(impl, next.result())
			if v := ccInvariant(next, &st, op.Kind); v != "" {
				fail("unit-input", "configuration invariant broken", v+" after "+line+" -> "+next.result(), map[string]any{"line": line, "result": next.result()})
			}
			if !seen[next.result()] {
				seen[next.result()] = true
				queue = append(queue, next)
			}
		}
		// Restore(ConfState(cfg)) reproduces an equivalent configuration
		t := st.tracker(mi)
		cs := t.ConfState()
		lines = append(lines, "cc restore - - - - 0 - "+fmt.Sprint(last)+" "+fmt.Sprint(mi)+argsTail(ccOp{Kind: "restore", CS: cs}.args()))
		r, err, _ := applyOp(ccState{ONil: true, LNil: true, NNil: true, Prs: map[uint64]ccPr{}}, ccOp{Kind: "restore", CS: cs}, last, mi)
		if err != nil {
			impl = append(impl, "err")
			fail("unit-input", "restore of a reachable configuration failed", fmt.Sprintf("Restore(%v): %v", cs, err), map[string]any{"confstate": fmt.Sprint(cs)})
		} else {
			impl = append(impl, r.result())
			t2 := r.tracker(mi)
			if e := cs.Equivalent(t2.ConfState()); e != nil {
				fail("unit-input", "restore does not round-trip", e.Error(), map[string]any{"confstate": fmt.Sprint(cs)})
			}
		}
	}
	// random longer programs over 8 ids
	nr := 300
	if tier == "thorough" {
		nr = 5000
	}
	big := allChanges([]uint64{1, 2, 3, 4, 5, 6, 7, 8})
	for i := 0; i < nr; i++ {
		st := start
		for k := 0; k < 12; k++ {
			var op ccOp
			n := 1 + rng.Intn(3)
			var cs []*pb.ConfChangeSingle
			for j := 0; j < n; j++ {
				cs = append(cs, big[rng.Intn(len(big))])
			}
			switch rng.Intn(4) {
			case 0:
				op = ccOp{Kind: "simple", Changes: cs[:1]}
			case 1:
				op = ccOp{Kind: "enter", Auto: rng.Intn(2) == 0, Changes: cs}
			case 2:
				op = ccOp{Kind: "leave"}
			case 3:
				op = ccOp{Kind: "simple", Changes: cs}
			}
			next, err, _ := applyOp(st, op, last, mi)
			lines = append(lines, "cc "+strings.SplitN(op.args(), " ", 2)[0]+" "+st.input(last, mi)+argsTail(op.args()))
			if err != nil {
				impl = append(impl, "err")
				continue
			}
			impl = append(impl, next.result())
			if v := ccInvariant(next, &st, op.Kind); v != "" {
				fail("unit-input", "configuration invariant broken", v, map[string]any{"line": lines[len(lines)-1]})
			}
			st = next
		}
	}
	res.Rule = "breadth-first closure of the configurations reachable from {voters:1} over ids {0..3} (quick) / {0..4} (thorough) by every simple / enter-joint change of one or two single changes and leave-joint, each edge compared (result or error; input tracker unchanged), Restore(ConfState) for every reached configuration, plus random 12-step programs over 8 ids; non-trivial = accepted change; distinct = distinct (state, op) lines"
	res.Evaluations = len(lines)
	out, err := model.Run(lines)
	if err != nil {
		fmt.Fprintln(os.Stderr, "model:", err)
		fail("broken-correspondence", "model driver failed", err.Error(), map[string]any{})
		return
	}
	dl := map[string]bool{}
	for i := range lines {
		if impl[i] != "err" && !dl[lines[i]] {
			dl[lines[i]] = true
		}
		if i%(len(lines)/4+1) == 0 {
			res.Sample(lines[i] + " -> " + impl[i])
		}
		if out[i] != impl[i] {
			res.Disagreements++
			fail("broken-correspondence", "model differs from implementation", fmt.Sprintf("%s: impl %s, model %s", lines[i], impl[i], out[i]),
				map[string]any{"line": lines[i], "implementation": impl[i], "model": out[i], "broken": "correspondence stream unitdiff/confchange: RaftVerif.Changer.* vs confchange.Changer"})
		}
	}
	res.Distinct = len(dl)
	res.Stats["reachable_configurations"] = len(seen)
}

func argsTail(a string) string {
	p := strings.SplitN(a, " ", 2)
	if len(p) < 2 {
		return ""
	}
	return " " + p[1]
}
