package main

import (
	"encoding/json"
	"fmt"
	"math"
	"math/rand"
	"os"
	"sort"
	"strings"

	"go.etcd.io/raft/v3/quorum"
	"go.etcd.io/raft/v3/tracker"

	"verif/harness/internal/model"
	"verif/harness/internal/report"
)

type ackMap map[uint64]quorum.Index

func (m ackMap) AckedIndex(id uint64) (quorum.Index, bool) { i, ok := m[id]; return i, ok }

type qCase struct {
	C0, C1 []uint64
	Acks   map[uint64]uint64
	Votes  map[uint64]bool
}

func ids(s []uint64) string {
	if len(s) == 0 {
		return "-"
	}
	p := make([]string, len(s))
	for i, x := range s {
		p[i] = fmt.Sprint(x)
	}
	return strings.Join(p, ",")
}

func (c qCase) line() string {
	var ak, vk []uint64
	for k := range c.Acks {
		ak = append(ak, k)
	}
	for k := range c.Votes {
		vk = append(vk, k)
	}
	sort.Slice(ak, func(i, j int) bool { return ak[i] < ak[j] })
	sort.Slice(vk, func(i, j int) bool { return vk[i] < vk[j] })
	a := make([]string, len(ak))
	for i, k := range ak {
		a[i] = fmt.Sprintf("%d:%d", k, c.Acks[k])
	}
	v := make([]string, len(vk))
	for i, k := range vk {
		b := 0
		if c.Votes[k] {
			b = 1
		}
		v[i] = fmt.Sprintf("%d:%d", k, b)
	}
	as, vs := strings.Join(a, ","), strings.Join(v, ",")
	if as == "" {
		as = "-"
	}
	if vs == "" {
		vs = "-"
	}
	return fmt.Sprintf("q %s %s %s %s", ids(c.C0), ids(c.C1), as, vs)
}

func mkCfg(s []uint64) quorum.MajorityConfig {
	if s == nil {
		return nil
	}
	m := quorum.MajorityConfig{}
	for _, id := range s {
		m[id] = struct{}{}
	}
	return m
}

func fmtIdx(i quorum.Index) string {
	if i == math.MaxUint64 {
		return "inf"
	}
	return fmt.Sprint(uint64(i))
}

func fmtVR(v quorum.VoteResult) string {
	switch v {
	case quorum.VoteWon:
		return "won"
	case quorum.VoteLost:
		return "lost"
	case quorum.VotePending:
		return "pending"
	}
	return fmt.Sprintf("vr%d", v)
}

// implementation answer in the driver's output format
func (c qCase) impl() string {
	am := ackMap{}
	for k, v := range c.Acks {
		am[k] = quorum.Index(v)
	}
	jc := quorum.JointConfig{mkCfg(c.C0), mkCfg(c.C1)}
	return fmt.Sprintf("ci=%s vr=%s ci0=%s vr0=%s", fmtIdx(jc.CommittedIndex(am)), fmtVR(jc.VoteResult(c.Votes)),
		fmtIdx(jc[0].CommittedIndex(am)), fmtVR(jc[0].VoteResult(c.Votes)))
}

// the same question asked through tracker.ProgressTracker (matchAckIndexer, TallyVotes)
func (c qCase) viaTracker() (string, bool) {
	t := tracker.MakeProgressTracker(1, 0)
	t.Voters = quorum.JointConfig{mkCfg(c.C0), mkCfg(c.C1)}
	if t.Voters[0] == nil {
		t.Voters[0] = quorum.MajorityConfig{}
	}
	for _, s := range [][]uint64{c.C0, c.C1} {
		for _, id := range s {
			if m, ok := c.Acks[id]; ok {
				t.Progress[id] = &tracker.Progress{Match: m}
			}
		}
	}
	for k, v := range c.Votes {
		t.RecordVote(k, v)
	}
	_, _, vr := t.TallyVotes()
	// QuorumActive (the CheckQuorum test): a peer counts as recently active iff it voted yes in this case; by the
	// text of C12/C17 the leader has an active quorum exactly when a strict majority of EVERY voter set is active
	active := map[uint64]bool{}
	for id, pr := range t.Progress {
		pr.RecentActive = c.Votes[id]
		active[id] = pr.RecentActive
	}
	qa := t.QuorumActive()
	want := oracleVote(c.C0, active) == "won" && oracleVote(c.C1, active) == "won"
	if qa != want {
		return fmt.Sprintf("ci=%s vr=%s QuorumActive=%v but by definition %v", fmtIdx(quorum.Index(t.Committed())), fmtVR(vr), qa, want), true
	}
	return fmt.Sprintf("ci=%s vr=%s", fmtIdx(quorum.Index(t.Committed())), fmtVR(vr)), true
}

// oracle: directly from the text of C12, independent of sorting
func oracleCommitted(c []uint64, acks map[uint64]uint64) (uint64, bool) {
	if len(c) == 0 {
		return 0, false // no constraint
	}
	best := uint64(0)
	cands := []uint64{0}
	for _, id := range c {
		cands = append(cands, acks[id])
	}
	for _, k := range cands {
		n := 0
		for _, id := range c {
			if acks[id] >= k {
				n++
			}
		}
		if 2*n > len(c) && k > best {
			best = k
		}
	}
	return best, true
}

func oracleVote(c []uint64, votes map[uint64]bool) string {
	if len(c) == 0 {
		return "won"
	}
	yes, missing := 0, 0
	for _, id := range c {
		v, ok := votes[id]
		if !ok {
			missing++
		} else if v {
			yes++
		}
	}
	if 2*yes > len(c) {
		return "won"
	}
	if 2*(yes+missing) <= len(c) {
		return "lost"
	}
	return "pending"
}

func (c qCase) oracle() string {
	f := func(s []uint64) string {
		if v, ok := oracleCommitted(s, c.Acks); ok {
			return fmt.Sprint(v)
		}
		return "inf"
	}
	j := func() string {
		a, aok := oracleCommitted(c.C0, c.Acks)
		b, bok := oracleCommitted(c.C1, c.Acks)
		switch {
		case !aok && !bok:
			return "inf"
		case !aok:
			return fmt.Sprint(b)
		case !bok:
			return fmt.Sprint(a)
		}
		return fmt.Sprint(min(a, b))
	}
	jv := func() string {
		a, b := oracleVote(c.C0, c.Votes), oracleVote(c.C1, c.Votes)
		if a == "lost" || b == "lost" {
			return "lost"
		}
		if a == "won" && b == "won" {
			return "won"
		}
		return "pending"
	}
	return fmt.Sprintf("ci=%s vr=%s ci0=%s vr0=%s", j(), jv(), f(c.C0), oracleVote(c.C0, c.Votes))
}

func subsets(n int) [][]uint64 {
	var out [][]uint64
	for mask := 0; mask < 1<<n; mask++ {
		var s []uint64
		for i := 0; i < n; i++ {
			if mask&(1<<i) != 0 {
				s = append(s, uint64(i+1))
			}
		}
		out = append(out, s)
	}
	return out
}

func genQuorum(tier string, seed int64) []qCase {
	var cases []qCase
	n := 4
	ackVals := 4 // absent,0,1,2
	if tier == "thorough" {
		n = 5
	}
	subs := subsets(n)
	for _, c0 := range subs {
		for _, c1 := range subs {
			// all ack vectors over ids 1..n in {absent,0..ackVals-2}
			total := 1
			for i := 0; i < n; i++ {
				total *= ackVals
			}
			for code := 0; code < total; code++ {
				acks := map[uint64]uint64{}
				x := code
				for i := 0; i < n; i++ {
					d := x % ackVals
					x /= ackVals
					if d > 0 {
						acks[uint64(i+1)] = uint64(d - 1)
					}
				}
				votes := map[uint64]bool{}
				y := code
				for i := 0; i < n; i++ {
					d := y % 3
					y /= 3
					if d == 1 {
						votes[uint64(i+1)] = true
					} else if d == 2 {
						votes[uint64(i+1)] = false
					}
				}
				cases = append(cases, qCase{c0, c1, acks, votes})
			}
		}
	}
	// random large configs (allocation path, >7 voters) with 64-bit indexes
	rng := rand.New(rand.NewSource(seed))
	nr := 3000
	if tier == "thorough" {
		nr = 100000
	}
	for i := 0; i < nr; i++ {
		mk := func() []uint64 {
			k := rng.Intn(14)
			perm := rng.Perm(16)
			var s []uint64
			for _, p := range perm[:k] {
				s = append(s, uint64(p+1))
			}
			sort.Slice(s, func(i, j int) bool { return s[i] < s[j] })
			return s
		}
		c0, c1 := mk(), mk()
		if rng.Intn(3) == 0 {
			c1 = nil
		}
		acks := map[uint64]uint64{}
		votes := map[uint64]bool{}
		for id := uint64(1); id <= 16; id++ {
			switch rng.Intn(4) {
			case 0:
			case 1:
				acks[id] = uint64(rng.Intn(5))
			case 2:
				acks[id] = rng.Uint64() >> uint(rng.Intn(64))
				if acks[id] == math.MaxUint64 {
					acks[id]--
				}
			case 3:
				acks[id] = uint64(rng.Intn(100))
			}
			switch rng.Intn(3) {
			case 0:
				votes[id] = true
			case 1:
				votes[id] = false
			}
		}
		cases = append(cases, qCase{c0, c1, acks, votes})
	}
	return cases
}

func runQuorum(res *report.Result, tier string, seed int64, replay string) {
	var cases []qCase
	if replay != "" {
		var doc struct{ Case qCase }
		b, err := os.ReadFile(replay)
		if err == nil {
			err = json.Unmarshal(b, &doc)
		}
		if err != nil {
			fmt.Fprintln(os.Stderr, "replay:", err)
			os.Exit(2)
		}
		cases = []qCase{doc.Case}
	} else {
		cases = genQuorum(tier, seed)
	}
	res.Rule = "exhaustive: every pair of voter subsets over ids 1..n (n=4 quick, 5 thorough) x every ack vector in {absent,0,1,2}^n with a vote vector in {absent,yes,no}^n derived from the same code; plus random configs of 0..13 voters out of 16 with 64-bit indexes; a case is non-trivial when some voter set is non-empty; distinct = distinct input lines"
	lines := make([]string, len(cases))
	impl := make([]string, len(cases))
	seen := map[string]bool{}
	for i, c := range cases {
		lines[i] = c.line()
		impl[i] = c.impl()
		if (len(c.C0) > 0 || len(c.C1) > 0) && !seen[lines[i]] {
			seen[lines[i]] = true
		}
		if len(c.C0) > 7 || len(c.C1) > 7 {
			res.Stats["large_config_cases"]++
		}
		if len(c.C1) > 0 {
			res.Stats["joint_cases"]++
		}
	}
	res.Evaluations = len(cases)
	res.Distinct = len(seen)
	out, err := model.Run(lines)
	if err != nil {
		fmt.Fprintln(os.Stderr, "model:", err)
		res.Violations = append(res.Violations, report.Violation{Property: "C12", Kind: "broken-correspondence",
			Key: "model driver failed", What: err.Error(), Replay: report.WriteReplay("C12_driver_failure.json", map[string]any{"error": err.Error()})})
		return
	}
	for i, c := range cases {
		if i%(len(cases)/4+1) == 0 {
			res.Sample(lines[i] + " -> " + impl[i])
		}
		or := c.oracle()
		tr, _ := c.viaTracker()
		trWant := strings.Join(strings.Fields(impl[i])[:2], " ")
		implOK := impl[i] == or && tr == trWant
		if impl[i] == out[i] && implOK {
			continue
		}
		res.Disagreements++
		if len(res.Violations) >= 3 {
			continue
		}
		doc := map[string]any{"property": "C12", "Case": c, "line": lines[i], "implementation": impl[i],
			"via_tracker": tr, "model": out[i], "oracle_from_property_text": or}
		if !implOK {
			doc["kind"] = "unit-input"
			doc["verdict"] = "the real quorum code disagrees with the property's definition on this input"
			p := report.WriteReplay(fmt.Sprintf("C12_input_%d.json", len(res.Violations)), doc)
			res.Violations = append(res.Violations, report.Violation{Property: "C12", Kind: "unit-input", Concrete: true,
				Key: "quorum result differs from definition", What: fmt.Sprintf("%s: impl %s, by definition %s", lines[i], impl[i], or), Replay: p})
		} else {
			doc["kind"] = "broken-correspondence"
			doc["broken"] = "correspondence stream unitdiff/quorum: Lean model RaftVerif.Quorum.{jointCommitted,jointVote} vs quorum.JointConfig"
			p := report.WriteReplay(fmt.Sprintf("C12_corr_%d.json", len(res.Violations)), doc)
			res.Violations = append(res.Violations, report.Violation{Property: "C12", Kind: "broken-correspondence",
				Key: "model differs from implementation", What: fmt.Sprintf("%s: impl %s, model %s", lines[i], impl[i], out[i]), Replay: p})
		}
	}
}
