// facts: a go/ast + go/types fact extractor over /repo's non-test source (a small, regenerated-on-every-run
// tie for facts that the Lean model and the audits depend on):
//   - every `range` over a map-typed expression (file, function, expression, hash of the loop body)   (C19)
//   - every panic / Panicf / Panic call site (file, function, first argument)                       (C14)
//   - imports of time / math/rand / os in the core packages                                           (C19)
//   - the numeric values of the MessageType / EntryType / ConfChangeType / StateType enumerations and the
//     isLocalMsg / isResponseMsg tables                                                                (model tables)
// Output: JSON on stdout.
package main

import (
	"crypto/sha256"
	"encoding/json"
	"fmt"
	"go/ast"
	"go/constant"
	"go/printer"
	"go/token"
	"go/types"
	"os"
	"sort"
	"strings"

	"golang.org/x/tools/go/packages"
)

type rangeSite struct {
	File, Func, Expr, BodyHash string
}
type panicSite struct {
	File, Func, Call, Arg string
}
type facts struct {
	MapRanges []rangeSite       `json:"map_ranges"`
	Panics    []panicSite       `json:"panics"`
	Imports   map[string][]string `json:"suspicious_imports"`
	Enums     map[string]map[string]int64 `json:"enums"`
	IsLocal   []string          `json:"is_local_msg"`
	IsResp    []string          `json:"is_response_msg"`
}

func main() {
	dir := "/repo"
	if len(os.Args) > 1 {
		dir = os.Args[1]
	}
	cfg := &packages.Config{Mode: packages.NeedName | packages.NeedFiles | packages.NeedSyntax | packages.NeedTypes | packages.NeedTypesInfo | packages.NeedImports, Dir: dir, Tests: false}
	pkgs, err := packages.Load(cfg, ".", "./quorum", "./tracker", "./confchange", "./raftpb")
	if err != nil {
		fmt.Fprintln(os.Stderr, err)
		os.Exit(2)
	}
	f := facts{Imports: map[string][]string{}, Enums: map[string]map[string]int64{}}
	for _, p := range pkgs {
		if len(p.Errors) > 0 {
			fmt.Fprintln(os.Stderr, p.Errors)
			os.Exit(2)
		}
		for _, file := range p.Syntax {
			name := strings.TrimPrefix(p.Fset.Position(file.Pos()).Filename, dir+"/")
			if strings.HasSuffix(name, "_test.go") || strings.HasSuffix(name, ".pb.go") || strings.Contains(name, "verif_hooks") {
				continue
			}
			for _, imp := range file.Imports {
				path := strings.Trim(imp.Path.Value, `"`)
				if path == "time" || path == "math/rand" || path == "math/rand/v2" || path == "os" || path == "runtime" {
					f.Imports[name] = append(f.Imports[name], path)
				}
			}
			var fn string
			ast.Inspect(file, func(n ast.Node) bool {
				switch x := n.(type) {
				case *ast.FuncDecl:
					fn = x.Name.Name
					if x.Recv != nil && len(x.Recv.List) > 0 {
						fn = types.ExprString(x.Recv.List[0].Type) + "." + fn
					}
				case *ast.RangeStmt:
					if t := p.TypesInfo.TypeOf(x.X); t != nil {
						if _, ok := t.Underlying().(*types.Map); ok {
							var sb strings.Builder
							printer.Fprint(&sb, p.Fset, x.Body)
							h := sha256.Sum256([]byte(sb.String()))
							f.MapRanges = append(f.MapRanges, rangeSite{name, fn, types.ExprString(x.X), fmt.Sprintf("%x", h[:6])})
						}
					}
				case *ast.CallExpr:
					call := types.ExprString(x.Fun)
					if call == "panic" || strings.HasSuffix(call, ".Panicf") || strings.HasSuffix(call, ".Panic") {
						arg := ""
						if len(x.Args) > 0 {
							arg = types.ExprString(x.Args[0])
							if len(arg) > 70 {
								arg = arg[:70]
							}
						}
						f.Panics = append(f.Panics, panicSite{name, fn, call, arg})
					}
				}
				return true
			})
		}
		// enumerations
		scope := p.Types.Scope()
		for _, nm := range scope.Names() {
			c, ok := scope.Lookup(nm).(*types.Const)
			if !ok {
				continue
			}
			tn := c.Type().String()
			for _, want := range []string{"MessageType", "EntryType", "ConfChangeType", "ConfChangeTransition", "raft/v3.StateType", "tracker.StateType", "VoteResult"} {
				if strings.HasSuffix(tn, want) {
					if v, ok := constant.Int64Val(c.Val()); ok {
						short := tn[strings.LastIndex(tn, "/")+1:]
						if f.Enums[short] == nil {
							f.Enums[short] = map[string]int64{}
						}
						f.Enums[short][nm] = v
					}
				}
			}
		}
		// isLocalMsg / isResponseMsg tables (composite literals with keyed elements)
		for _, file := range p.Syntax {
			ast.Inspect(file, func(n ast.Node) bool {
				vs, ok := n.(*ast.ValueSpec)
				if !ok || len(vs.Names) != 1 || len(vs.Values) != 1 {
					return true
				}
				nm := vs.Names[0].Name
				if nm != "isLocalMsg" && nm != "isResponseMsg" {
					return true
				}
				if cl, ok := vs.Values[0].(*ast.CompositeLit); ok {
					for _, el := range cl.Elts {
						if kv, ok := el.(*ast.KeyValueExpr); ok && types.ExprString(kv.Value) == "true" {
							k := types.ExprString(kv.Key)
							k = k[strings.LastIndex(k, ".")+1:]
							if nm == "isLocalMsg" {
								f.IsLocal = append(f.IsLocal, k)
							} else {
								f.IsResp = append(f.IsResp, k)
							}
						}
					}
				}
				return true
			})
		}
	}
	sort.Slice(f.MapRanges, func(i, j int) bool {
		a, b := f.MapRanges[i], f.MapRanges[j]
		return a.File+a.Func+a.Expr+a.BodyHash < b.File+b.Func+b.Expr+b.BodyHash
	})
	sort.Slice(f.Panics, func(i, j int) bool {
		a, b := f.Panics[i], f.Panics[j]
		return a.File+a.Func+a.Call+a.Arg < b.File+b.Func+b.Call+b.Arg
	})
	sort.Strings(f.IsLocal)
	sort.Strings(f.IsResp)
	_ = token.NoPos
	if len(os.Args) > 3 && os.Args[2] == "-lean" {
		if err := os.WriteFile(os.Args[3], []byte(leanFacts(f)), 0o644); err != nil {
			fmt.Fprintln(os.Stderr, err)
			os.Exit(2)
		}
	}
	enc := json.NewEncoder(os.Stdout)
	enc.SetIndent("", " ")
	enc.Encode(f)
}

// leanFacts renders the enumeration tables as a Lean module (regenerated on every run; the hand-written
// RaftVerif/Tie/Facts.lean proves that the model's tables equal these).
func leanFacts(f facts) string {
	var sb strings.Builder
	sb.WriteString("-- GENERATED by /verif/harness/cmd/facts from /repo's current source. Do not edit.\nnamespace RaftVerif.Gen\n\n")
	table := func(name string, m map[string]int64) {
		type kv struct {
			k string
			v int64
		}
		var l []kv
		for k, v := range m {
			l = append(l, kv{k, v})
		}
		sort.Slice(l, func(i, j int) bool { return l[i].v < l[j].v || (l[i].v == l[j].v && l[i].k < l[j].k) })
		fmt.Fprintf(&sb, "def %s : List (String × Nat) := [", name)
		for i, e := range l {
			if i > 0 {
				sb.WriteString(", ")
			}
			fmt.Fprintf(&sb, "(%q, %d)", e.k, e.v)
		}
		sb.WriteString("]\n\n")
	}
	clean := func(m map[string]int64, drop func(string) bool) map[string]int64 {
		out := map[string]int64{}
		for k, v := range m {
			if !drop(k) {
				out[k] = v
			}
		}
		return out
	}
	generated := func(k string) bool { return strings.Contains(k, "_") } // MessageType_MsgHup aliases of the pb package
	table("messageTypes", clean(f.Enums["raftpb.MessageType"], generated))
	table("entryTypes", clean(f.Enums["raftpb.EntryType"], generated))
	table("confChangeTypes", clean(f.Enums["raftpb.ConfChangeType"], generated))
	table("confChangeTransitions", clean(f.Enums["raftpb.ConfChangeTransition"], generated))
	table("stateTypes", clean(f.Enums["v3.StateType"], func(k string) bool { return k == "numStates" }))
	table("progressStates", f.Enums["tracker.StateType"])
	table("voteResults", f.Enums["quorum.VoteResult"])
	names := func(name string, l []string) {
		fmt.Fprintf(&sb, "def %s : List String := [", name)
		for i, e := range l {
			if i > 0 {
				sb.WriteString(", ")
			}
			fmt.Fprintf(&sb, "%q", e)
		}
		sb.WriteString("]\n\n")
	}
	names("isLocalMsg", f.IsLocal)
	names("isResponseMsg", f.IsResp)
	sb.WriteString("end RaftVerif.Gen\n")
	return sb.String()
}
