// sim: cluster simulator over real RawNodes (tie X node level + counterexample search).
//
//	sim -tier quick|thorough -seed N [-runs K] [-workers W] [-replay file] [-nomodel] [-trace]
//
// Every simulated run is (1) watched by the monitors that encode the properties' statements and
// (2) replayed, node by node, through the Lean model driver; digests of every output and of the whole
// node state after every operation must agree.
package main

import (
	"bufio"
	"encoding/json"
	"flag"
	"fmt"
	"math/rand"
	"os"
	"os/exec"
	"runtime"
	"sort"
	"strings"
	"sync"
	"time"

	"verif/harness/internal/model"
	"verif/harness/internal/report"
	"verif/harness/internal/sim"
)

type runResult struct {
	Opts       sim.Opts        `json:"opts"`
	Violations []sim.Violation `json:"violations"`
	Lines      int             `json:"lines"`
	Mismatch   *mismatch       `json:"mismatch,omitempty"`
	SpecFail   *specFail       `json:"spec_fail,omitempty"`
	// Digest of the whole recorded run (every op line, output digest, state digest): C19 compares it
	// between two executions in one process and between processes
	Digest   string         `json:"digest"`
	Nondet   string         `json:"nondeterminism,omitempty"`
	SpecActs int            `json:"spec_actions"`
	Stats    map[string]int `json:"stats"`
}

// specFail: the abstract protocol rejected an action the implementation took, or the abstract state
// diverged from the abstraction of the implementation's state.
type specFail struct {
	Line    int      `json:"line"`
	Action  string   `json:"action"`
	Output  string   `json:"output"`
	Context []string `json:"previous"`
}

type mismatch struct {
	Line      int      `json:"line"`
	Op        string   `json:"op"`
	ImplOut   string   `json:"impl_out"`
	ModelOut  string   `json:"model_out"`
	ImplState string   `json:"impl_state"`
	ModelSt   string   `json:"model_state"`
	Fields    []string `json:"differing_fields"`
	Context   []string `json:"previous_ops"`
}

func genOpts(rng *rand.Rand, tier string, mode string) sim.Opts {
	o := sim.Opts{Seed: rng.Int63()}
	if mode == "all" {
		// the mix used by the registered checks
		switch r := rng.Intn(100); {
		case r < 30:
			mode = "mixed"
		case r < 35:
			mode = "joint"
		case r < 65:
			mode = "nodefuzz"
		case r < 75:
			mode = "snap"
		case r < 85:
			mode = "figure8"
		case r < 90:
			mode = "asynccrash"
		case r < 93:
			mode = "single"
		case r < 96:
			mode = "zero"
		default:
			mode = "converge"
		}
	}
	// node ids: 1..n, or (one run in five) spread over the whole 64-bit range like hashed member ids
	idMul := uint64(1)
	if rng.Intn(5) == 0 {
		idMul = sim.SpreadIDMul
	}
	if mode == "nodefuzz" {
		o.Fuzz = 150 + rng.Intn(250)
		o.IDMul = idMul
		return o
	}
	nv := []int{1, 2, 3, 3, 3, 3, 4, 5, 5}[rng.Intn(9)]
	for i := 1; i <= nv; i++ {
		o.Voters = append(o.Voters, uint64(i)*idMul)
	}
	if rng.Intn(4) == 0 && nv < 5 {
		nl := 1 + rng.Intn(min(2, 5-nv))
		for i := 0; i < nl; i++ {
			o.Learners = append(o.Learners, uint64(nv+1+i)*idMul)
		}
	}
	o.Steps = 300 + rng.Intn(300)
	if tier == "thorough" {
		o.Steps = 600 + rng.Intn(1200)
	}
	o.Async = rng.Intn(2) == 0
	switch rng.Intn(4) {
	case 0:
		o.PreVote, o.CheckQuorum = []bool{false}, []bool{false}
	case 1:
		o.PreVote, o.CheckQuorum = []bool{true}, []bool{true}
	case 2:
		o.PreVote, o.CheckQuorum = []bool{rng.Intn(2) == 0}, []bool{rng.Intn(2) == 0}
	case 3: // mixed cluster
		o.PreVote = []bool{true, false, true, rng.Intn(2) == 0, false}
		o.CheckQuorum = []bool{rng.Intn(2) == 0, true, false, true, rng.Intn(2) == 0}
	}
	o.ElectionTick = []int{10, 10, 5, 3}[rng.Intn(4)]
	o.MaxSizePerMsg = []uint64{1 << 20, 1 << 20, 1, 30, 80, 300, ^uint64(0)}[rng.Intn(7)]
	o.MaxCommittedSizePerReady = []uint64{0, 0, 1, 25, 60, 400}[rng.Intn(6)]
	if o.MaxSizePerMsg == 0 && o.MaxCommittedSizePerReady == 0 {
		o.MaxCommittedSizePerReady = 1
	}
	o.MaxUncommittedEntriesSize = []uint64{0, 0, 1, 20, 100, 1000}[rng.Intn(6)]
	o.MaxInflightMsgs = []int{1, 2, 3, 8, 256}[rng.Intn(5)]
	o.MaxInflightBytes = []uint64{0, 0, 0, 1 << 20, 400, 150, 1000}[rng.Intn(7)]
	if o.MaxInflightBytes != 0 && o.MaxInflightBytes < o.MaxSizePerMsg {
		if rng.Intn(2) == 0 {
			o.MaxInflightBytes = 0
		} else {
			o.MaxSizePerMsg = []uint64{1, 30, 80}[rng.Intn(3)]
		}
	}
	byteLimited := o.MaxInflightBytes != 0 && o.MaxInflightBytes < 1<<20
	if byteLimited && rng.Intn(2) == 0 {
		o.MaxInflightMsgs = 256 // the window fills by bytes long before it fills by count
	}
	o.ReadOnlyLease = rng.Intn(8) == 0
	o.DisableProposalForwarding = rng.Intn(8) == 0
	o.StepDownOnRemoval = rng.Intn(2) == 0
	o.Crashes = rng.Intn(2) == 0
	o.ConfChanges = rng.Intn(3) == 0
	o.Compaction = rng.Intn(2) == 0
	o.Transfers = rng.Intn(3) == 0
	o.Reads = rng.Intn(2) == 0
	o.Partitions = rng.Intn(3) == 0
	o.LossPct = []int{0, 0, 5, 15, 30}[rng.Intn(5)]
	o.DupPct = []int{0, 0, 5, 15}[rng.Intn(4)]
	o.BigPayloads = rng.Intn(2) == 0 || byteLimited
	o.BaseIndex = []uint64{1, 2, 2, 5}[rng.Intn(4)]
	if rng.Intn(8) == 0 {
		o.BaseIndex += 1 << 63
	}
	if mode == "converge" || rng.Intn(3) == 0 {
		o.Converge = 10
	}
	if rng.Intn(3) == 0 {
		o.SnapHeavy = o.Compaction
	}
	if rng.Intn(3) == 0 {
		o.IsolateLeader = o.Partitions
	}
	switch mode {
	case "snap": // lagging followers, frequent compaction, snapshots racing appends, late duplicates
		o.Compaction, o.SnapHeavy, o.Partitions, o.IsolateLeader = true, true, true, rng.Intn(2) == 0
		o.DupPct = []int{5, 15, 30}[rng.Intn(3)]
		o.ConfChanges = rng.Intn(4) == 0
	case "figure8": // leaders cut off with unreplicated tails, elections, overwrites
		o.Partitions, o.IsolateLeader, o.Compaction = true, true, rng.Intn(2) == 0
		o.SnapHeavy = o.Compaction
		o.ConfChanges, o.Crashes = false, false
		o.ElectionTick = 3
		o.Voters, o.Learners = []uint64{1, 2, 3}, nil
		if rng.Intn(2) == 0 {
			o.Voters = []uint64{1, 2, 3, 4, 5}
		}
	case "asynccrash": // crash/restart races of candidates and fresh leaders with asynchronous storage writes
		o.Voters, o.Learners = []uint64{1, 2, 3}, nil
		o.Async, o.Crashes, o.CrashHeavy = true, true, true
		o.PreVote, o.CheckQuorum = []bool{false}, []bool{false}
		o.ConfChanges, o.Partitions, o.LossPct, o.Converge = false, false, 0, 0
		o.ElectionTick = 3
	case "single": // single-voter groups (reads, restarts)
		o.Voters, o.Learners = []uint64{1}, nil
		o.Reads, o.Crashes, o.CrashHeavy = true, true, true
		o.ConfChanges = false
	case "joint": // long-lived joint configurations with reads, transfers and partitions
		o.ConfChanges, o.JointHeavy, o.Reads, o.Transfers = true, true, true, rng.Intn(2) == 0
		o.Partitions = rng.Intn(2) == 0
		if len(o.Voters) < 3 {
			o.Voters = []uint64{1 * idMul, 2 * idMul, 3 * idMul}
			o.Learners = nil
		}
	case "zero": // limits set to zero
		o.MaxSizePerMsg, o.MaxCommittedSizePerReady = 0, 0
		o.MaxInflightBytes = 0
	}
	switch mode {
	case "figure8", "asynccrash", "single": // these modes chose literal ids above
		for i := range o.Voters {
			o.Voters[i] *= idMul
		}
	}
	// runs with static membership are also replayed through the abstract protocol Spec/Raft.lean
	o.SpecCheck = !o.ConfChanges && rng.Intn(4) != 0
	// runs with membership changes: half of them are replayed through the reconfiguration protocol Spec/Reconf.lean
	o.SpecR = o.ConfChanges && rng.Intn(2) == 0
	return o
}

// oneRun executes a run, compares with the model, and returns the result.
func oneRun(o sim.Opts, useModel bool) (rr runResult) {
	var c *sim.Cluster
	aborted := ""
	func() {
		// calls into the library are recovered one by one (node.call); a panic that escapes here comes from a
		// read-only hook or a monitor looking at a library state that is no longer consistent
		defer func() {
			if r := recover(); r != nil {
				aborted = fmt.Sprint(r)
			}
		}()
		if o.Fuzz > 0 {
			c = sim.FuzzNode(o.Seed, o.Fuzz, o.IDMul)
		} else {
			c = sim.NewCluster(o)
			c.Run()
		}
	}()
	if aborted != "" {
		return runResult{Opts: o, Stats: map[string]int{"runs_aborted": 1}, Violations: []sim.Violation{{Prop: "*", Key: "run aborted by a panic outside a recovered library call",
			What: "a read-only hook or a monitor panicked on the node's state: " + aborted}}}
	}
	rr = runResult{Opts: o, Violations: c.Violations, Lines: len(c.Rec.Lines), Stats: c.Stats, Digest: recDigest(c)}
	if !useModel {
		return rr
	}
	out, err := model.Run(c.Rec.Lines)
	if err != nil {
		rr.Mismatch = &mismatch{Line: len(out), Op: "model driver failed: " + err.Error()}
		return rr
	}
	for i := range c.Rec.Lines {
		want := c.Rec.Outs[i] + " " + c.Rec.States[i]
		if out[i] != want {
			rr.Mismatch = explain(o, i)
			return rr
		}
	}
	if c.Spec != nil && (len(c.Violations) == 0 || os.Getenv("VERIF_SPEC_ALWAYS") != "") { // (the variable: debugging aid, to see what the trace check alone says)
		rr.SpecActs = len(c.Spec.Lines)
		if p := os.Getenv("VERIF_SPECDUMP"); p != "" { // debugging aid: the abstract action stream of the run
			os.WriteFile(p, []byte(strings.Join(c.Spec.Lines, "\n")+"\n"), 0o644)
		}
		sout, err := model.Run(c.Spec.Lines)
		if err != nil {
			rr.SpecFail = &specFail{Line: len(sout), Action: "driver failed: " + err.Error()}
			return rr
		}
		for i, o := range sout {
			if o != "ok" {
				// `becomeLeader` has the guard reqVotesCovered: the log the node leads with covers EVERY vote request of
				// this candidacy in the soup. It is the protocol-level form of finding 7.8 and deliberately conservative:
				// the vote messages do not say which request they answer. With asynchronous writes a candidate may crash,
				// restart with a shorter log, campaign again for the same term and win on grants for its SECOND request
				// only — harmless, yet not an execution of the protocol. The precise condition (a counted vote was granted
				// for a log the leader does not hold) is the C02 monitor, over messages really exchanged; it is silent here
				// (the trace check runs only on runs without monitor violations). If that conjunct is the only one that
				// fails, the run leaves the protocol's executions at this point: counted, not reported.
				if strings.Contains(o, "DISABLED becomeLeader") && strings.Contains(o, "[candidate=true quorum=true ownVoteDurable=true reqVotesCovered=false votesInSoup=true]") {
					rr.Stats["spec_left_at_uncovered_vote_request"]++
					rr.SpecActs = i
					break
				}
				sf := &specFail{Line: i, Action: c.Spec.Lines[i], Output: o}
				for k := max(0, i-12); k < i; k++ {
					sf.Context = append(sf.Context, c.Spec.Lines[k])
				}
				rr.SpecFail = sf
				break
			}
		}
	}
	return rr
}

func recDigest(c *sim.Cluster) string {
	h := uint64(14695981039346656037)
	mix := func(s string) {
		for i := 0; i < len(s); i++ {
			h ^= uint64(s[i])
			h *= 1099511628211
		}
		h ^= 0xff
		h *= 1099511628211
	}
	for i := range c.Rec.Lines {
		mix(c.Rec.Lines[i])
		mix(c.Rec.Outs[i])
		mix(c.Rec.States[i])
	}
	return fmt.Sprintf("%016x/%d", h, len(c.Rec.Lines))
}

// explain re-runs with full texts and a verbose driver to localise the first difference.
func explain(o sim.Opts, line int) *mismatch {
	o.KeepText = true
	var c *sim.Cluster
	if o.Fuzz > 0 {
		sim.FuzzKeepText = true
		c = sim.FuzzNode(o.Seed, o.Fuzz, o.IDMul)
		sim.FuzzKeepText = false
	} else {
		c = sim.NewCluster(o)
		c.Run()
	}
	lines := append([]string{"verbose 1"}, c.Rec.Lines...)
	out, _ := model.Run(lines)
	mm := &mismatch{Line: line}
	if line < len(c.Rec.Lines) {
		mm.Op = c.Rec.Lines[line]
		mm.ImplOut = c.Rec.Outs[line]
		mm.ImplState = c.Rec.States[line]
		for k := max(0, line-6); k < line; k++ {
			mm.Context = append(mm.Context, c.Rec.Lines[k])
		}
	}
	if line+1 < len(out) {
		txt := out[line+1]
		if i := strings.Index(txt, " || state="); i >= 0 {
			mm.ModelOut = strings.TrimPrefix(txt[:i], "out=")
			mm.ModelSt = txt[i+len(" || state="):]
			if j := strings.Index(mm.ModelSt, " why="); j >= 0 && strings.HasPrefix(mm.ModelSt, "dead") {
				mm.ModelSt = mm.ModelSt[:j] + " [" + mm.ModelSt[j+1:] + "]"
			}
		} else {
			mm.ModelOut = txt
		}
	}
	if mm.ImplOut != mm.ModelOut {
		mm.Fields = append(mm.Fields, "output")
	}
	mm.Fields = append(mm.Fields, diffFields(mm.ImplState, mm.ModelSt)...)
	return mm
}

// diffFields names the top-level sections / key=value fields of the canonical state text that differ.
func diffFields(a, b string) []string {
	sa, sb := strings.Split(a, " | "), strings.Split(b, " | ")
	var out []string
	for i := 0; i < len(sa) || i < len(sb); i++ {
		var x, y string
		if i < len(sa) {
			x = sa[i]
		}
		if i < len(sb) {
			y = sb[i]
		}
		if x == y {
			continue
		}
		fa, fb := strings.Fields(x), strings.Fields(y)
		named := false
		for k := 0; k < len(fa) && k < len(fb); k++ {
			if fa[k] != fb[k] {
				out = append(out, fmt.Sprintf("section %d: %q vs %q", i, clip(fa[k]), clip(fb[k])))
				named = true
				break
			}
		}
		if !named {
			out = append(out, fmt.Sprintf("section %d differs in length", i))
		}
	}
	return out
}

func clip(s string) string {
	if len(s) > 160 {
		return s[:160] + "…"
	}
	return s
}

func main() {
	tier := flag.String("tier", "quick", "")
	seed := flag.Int64("seed", 1, "")
	runs := flag.Int("runs", 0, "number of runs (0 = by tier)")
	workers := flag.Int("workers", 0, "")
	replay := flag.String("replay", "", "replay file (a runResult JSON)")
	noModel := flag.Bool("nomodel", false, "skip the model comparison")
	trace := flag.Bool("trace", false, "print the environment trace of a replay")
	child := flag.Bool("child", false, "internal: run as worker, print one JSON line per run")
	deadline := flag.Int64("deadline", 0, "internal: unix time after which a worker starts no further run")
	budget := flag.Int("budget", 0, "seconds after which no further run is started (0 = by tier: quick 900, thorough 2700); the runs done so far are reported")
	mode := flag.String("mode", "all", "mixed|converge|asynccrash|single|zero|snap|figure8|joint|nodefuzz")
	corpus := flag.String("corpus", "", "directory of replay files to run first (minimised past findings)")
	directed := flag.String("directed", "", "internal: JSON options to vary (directed search)")
	rerun := flag.String("rerun", "", "internal: JSON list of options to re-execute (cross-process determinism)")
	flag.Parse()

	if *replay != "" {
		doReplay(*replay, *trace, !*noModel)
		return
	}
	if *runs == 0 {
		*runs = 480
		if *tier == "thorough" {
			*runs = 12000
		}
	}
	if *child {
		rng := rand.New(rand.NewSource(*seed))
		w := bufio.NewWriter(os.Stdout)
		var rerunOpts []sim.Opts
		if *rerun != "" {
			json.Unmarshal([]byte(*rerun), &rerunOpts)
			*runs = len(rerunOpts)
		}
		for i := 0; i < *runs; i++ {
			if *deadline > 0 && time.Now().Unix() > *deadline && rerunOpts == nil {
				break // time budget used up: what was run is reported, the rest is counted as not run
			}
			o := genOpts(rng, *tier, *mode)
			if rerunOpts != nil {
				o = rerunOpts[i]
			}
			if *directed != "" {
				var base sim.Opts
				if json.Unmarshal([]byte(*directed), &base) == nil {
					base.Seed = rng.Int63()
					base.Steps = base.Steps*3/2 + 100
					o = base
				}
			}
			// watchdog: a run that does not come back (a call into the library that loops, or a schedule that never
			// quiesces) is reported with its options instead of hanging the check
			wd := time.AfterFunc(10*time.Minute, func() {
				hung := runResult{Opts: o, Stats: map[string]int{}, Violations: []sim.Violation{{Prop: "*", Key: "run does not terminate",
					What: "the run did not finish within 10 minutes (a call that does not return, or a schedule that never quiesces)"}}}
				b, _ := json.Marshal(hung)
				os.Stdout.Write(append(b, '\n'))
				os.Exit(3)
			})
			rr := oneRun(o, !*noModel)
			wd.Stop()
			if *rerun != "" || i%6 == 0 {
				// C19: the same run executed a second time in this process must be identical
				r2 := oneRun(o, false)
				rr.Stats["determinism_inprocess_reruns"]++
				if r2.Digest != rr.Digest {
					rr.Nondet = fmt.Sprintf("second execution in the same process differs: %s vs %s", rr.Digest, r2.Digest)
				}
			}
			b, _ := json.Marshal(rr)
			w.Write(b)
			w.WriteByte('\n')
			w.Flush()
		}
		return
	}
	if *workers == 0 {
		*workers = min(runtime.NumCPU(), 16)
	}
	res := report.New("sim/"+*mode, *tier, *seed)
	res.Rule = "random environment schedules over real RawNodes (1-5 voters, 0-2 learners, sync/async storage, PreVote/CheckQuorum incl. mixed, size limits, crashes at the Ready sub-steps, partitions, loss/dup/reorder, conf changes, compaction+snapshots, transfers, reads); each run's per-node op stream is replayed through the Lean model and output+state digests compared per op; plus single-node fuzzing from random storages with messages of every type around the node's term/log (model comparison only, no monitors); non-trivial = a cluster run in which votes and appends were delivered, or a fuzz run longer than 20 operations; distinct = distinct option/seed combinations"
	self, _ := os.Executable()
	if *budget == 0 {
		*budget = 900
		if *tier == "thorough" {
			*budget = 2700
		}
	}
	stopAt := time.Now().Unix() + int64(*budget)
	var mu sync.Mutex
	var wg sync.WaitGroup
	per := (*runs + *workers - 1) / *workers
	all := []runResult{}
	for w := 0; w < *workers; w++ {
		wg.Add(1)
		go func(w int) {
			defer wg.Done()
			args := []string{"-child", "-tier", *tier, "-seed", fmt.Sprint(*seed*1000003 + int64(w)), "-runs", fmt.Sprint(per), "-mode", *mode,
				"-deadline", fmt.Sprint(stopAt)}
			if *noModel {
				args = append(args, "-nomodel")
			}
			cmd := exec.Command(self, args...)
			cmd.Stderr = os.Stderr
			out, err := cmd.StdoutPipe()
			if err != nil {
				return
			}
			cmd.Start()
			sc := bufio.NewScanner(out)
			sc.Buffer(make([]byte, 1<<20), 1<<28)
			for sc.Scan() {
				var rr runResult
				if json.Unmarshal(sc.Bytes(), &rr) == nil {
					mu.Lock()
					all = append(all, rr)
					mu.Unlock()
				}
			}
			if err := cmd.Wait(); err != nil {
				mu.Lock()
				res.Stats["worker_failed"]++
				if ee, ok := err.(*exec.ExitError); !ok || ee.ExitCode() != 3 { // 3 = watchdog, which reported its run itself
					// the process died (a fatal runtime error that recover() cannot catch: stack exhaustion, concurrent map
					// access, out of memory): the runs it still had to do are lost, and that is reported
					all = append(all, runResult{Stats: map[string]int{}, Violations: []sim.Violation{{Prop: "*", Key: "simulator worker died",
						What: fmt.Sprintf("worker %d (seed %d) ended with %v before finishing its runs", w, *seed*1000003+int64(w), err)}}})
				}
				mu.Unlock()
			}
		}(w)
	}
	wg.Wait()
	sort.Slice(all, func(i, j int) bool { return all[i].Opts.Seed < all[j].Opts.Seed })
	if *corpus != "" {
		files, _ := os.ReadDir(*corpus)
		var cr []runResult
		for _, f := range files {
			if !strings.HasSuffix(f.Name(), ".json") {
				continue
			}
			b, err := os.ReadFile(*corpus + "/" + f.Name())
			if err != nil {
				continue
			}
			var rr runResult
			if json.Unmarshal(b, &rr) != nil {
				continue
			}
			out := oneRun(rr.Opts, !*noModel)
			for i := range out.Violations {
				out.Violations[i].What = "[corpus " + f.Name() + "] " + out.Violations[i].What
			}
			cr = append(cr, out)
			res.Stats["corpus_runs"]++
		}
		all = append(cr, all...)
	}
	// C19: a sample of the runs is executed again in a fresh OS process; the digests must be identical
	if !*noModel {
		var sample []sim.Opts
		want := map[int64]string{}
		// runs on which the correspondence broke go first: if the implementation became order- or
		// time-dependent there, the second execution turns the broken correspondence into a concrete history
		for _, rr := range all {
			if (rr.Mismatch != nil || rr.SpecFail != nil) && len(sample) < 12 && len(rr.Violations) == 0 && len(rr.Opts.Script) == 0 && want[rr.Opts.Seed] == "" {
				sample = append(sample, rr.Opts)
				want[rr.Opts.Seed] = rr.Digest
			}
		}
		for i, rr := range all {
			if i%12 == 0 && len(sample) < 40 && len(rr.Violations) == 0 && len(rr.Opts.Script) == 0 && want[rr.Opts.Seed] == "" {
				sample = append(sample, rr.Opts)
				want[rr.Opts.Seed] = rr.Digest
			}
		}
		if len(sample) > 0 {
			sb, _ := json.Marshal(sample)
			cmd := exec.Command(self, "-child", "-rerun", string(sb), "-nomodel", "-tier", *tier)
			out, err := cmd.Output()
			if err == nil {
				for _, line := range strings.Split(string(out), "\n") {
					var rr runResult
					if line == "" || json.Unmarshal([]byte(line), &rr) != nil {
						continue
					}
					res.Stats["determinism_crossprocess_reruns"]++
					if w := want[rr.Opts.Seed]; w != "" && w != rr.Digest && len(rr.Violations) == 0 {
						rr.Nondet = fmt.Sprintf("execution in a second process differs: %s vs %s", w, rr.Digest)
						all = append(all, rr)
					}
				}
			}
		}
	}
	// directed search (DESIGN.md 5.2): the correspondence broke but no monitor fired -> look for a concrete
	// failing history around the disagreeing runs (same options, fresh seeds; monitors only)
	anyMismatch, anyConcrete := false, false
	for _, rr := range all {
		if rr.Mismatch != nil || rr.SpecFail != nil {
			anyMismatch = true
		}
		if len(rr.Violations) > 0 {
			anyConcrete = true
		}
	}
	if anyMismatch && !anyConcrete && !*noModel {
		var bases []sim.Opts
		for _, rr := range all {
			if (rr.Mismatch != nil || rr.SpecFail != nil) && rr.Opts.Fuzz == 0 && len(bases) < 4 {
				bases = append(bases, rr.Opts)
			}
		}
		drng := rand.New(rand.NewSource(*seed ^ 0xd1ec7ed))
		var dmu sync.Mutex
		var dwg sync.WaitGroup
		found := false
		for w := 0; w < *workers; w++ {
			dwg.Add(1)
			wseed := drng.Int63()
			go func(wseed int64) {
				defer dwg.Done()
				// each worker is a child process (the election-timeout reader is process-global)
				for _, b := range bases {
					bb, _ := json.Marshal(b)
					cmd := exec.Command(self, "-child", "-directed", string(bb), "-runs", "40", "-seed", fmt.Sprint(wseed), "-nomodel")
					out, err := cmd.Output()
					if err != nil {
						continue
					}
					for _, line := range strings.Split(string(out), "\n") {
						var rr runResult
						if line != "" && json.Unmarshal([]byte(line), &rr) == nil && len(rr.Violations) > 0 {
							dmu.Lock()
							all = append(all, rr)
							found = true
							dmu.Unlock()
						}
					}
				}
			}(wseed)
		}
		dwg.Wait()
		res.Stats["directed_search_runs"] = len(bases) * 40 * *workers
		if found {
			res.Stats["directed_search_found"] = 1
		}
	}
	summarise(res, all, per**workers+res.Stats["corpus_runs"])
	res.Emit()
}

func summarise(res *report.Result, all []runResult, expected int) {
	res.Evaluations = len(all)
	if len(all) < expected {
		// runs not executed: the time budget ran out (or a worker died: then a violation says so)
		res.Stats["runs_missing"] = expected - len(all)
	}
	seenV := map[string]bool{}
	for _, rr := range all {
		res.Stats["node_ops"] += rr.Lines
		for k, v := range rr.Stats {
			res.Stats[k] += v
		}
		if rr.Stats["restart"] > 0 {
			res.Stats["runs_with_restart"]++
		}
		if rr.Stats["proposecc"] > 0 {
			res.Stats["runs_with_confchange"]++
		}
		if rr.Opts.Async {
			res.Stats["runs_async"]++
		}
		if rr.Stats["deliver_MsgSnap"] > 0 {
			res.Stats["runs_with_snapshot"]++
		}
		if (rr.Stats["deliver_MsgVoteResp"] > 0 && rr.Stats["deliver_MsgApp"] > 0) || (rr.Opts.Fuzz > 0 && rr.Lines > 20) {
			res.Distinct++
		}
		if rr.Opts.Fuzz > 0 {
			res.Stats["runs_nodefuzz"]++
		}
		if rr.Opts.SpecR && rr.SpecActs > 0 {
			res.Stats["runs_specr_checked"]++
		}
		for _, k := range []string{"specr_cfg_entries", "specr_applyTo", "specr_restarts", "spec_left_at_uncovered_vote_request"} {
			res.Stats[k] += rr.Stats[k]
		}
		if rr.Opts.IDMul > 1 || (len(rr.Opts.Voters) > 0 && rr.Opts.Voters[0] > 1<<32) {
			res.Stats["runs_spread_ids"]++
		}
		if len(res.Samples) < 3 {
			b, _ := json.Marshal(rr.Opts)
			res.Sample(fmt.Sprintf("run opts=%s ops=%d", b, rr.Lines))
		}
		res.Stats["spec_actions"] += rr.SpecActs
		if rr.SpecActs > 0 {
			res.Stats["runs_spec_checked"]++
		}
		if rr.SpecFail != nil {
			res.Disagreements++
			if !seenV["specfail"] {
				seenV["specfail"] = true
				p := report.WriteReplay(fmt.Sprintf("sim_specfail_%d.json", rr.Opts.Seed), rr)
				res.Violations = append(res.Violations, report.Violation{Property: "SPEC", Kind: "broken-correspondence",
					Key:    "implementation step is not a step of the abstract protocol",
					What:   fmt.Sprintf("%q -> %s", clip(rr.SpecFail.Action), clip(rr.SpecFail.Output)),
					Replay: p})
			}
		}
		if rr.Nondet != "" {
			res.Disagreements++
			if !seenV["nondet"] {
				seenV["nondet"] = true
				p := report.WriteReplay(fmt.Sprintf("sim_nondet_%d.json", rr.Opts.Seed), rr)
				res.Violations = append(res.Violations, report.Violation{Property: "C19", Kind: "history", Concrete: true,
					Key: "same inputs, different outputs", What: rr.Nondet, Replay: p})
			}
		}
		if rr.Mismatch != nil {
			res.Disagreements++
			if !seenV["mismatch"] {
				seenV["mismatch"] = true
				p := report.WriteReplay(fmt.Sprintf("sim_mismatch_%d.json", rr.Opts.Seed), rr)
				res.Violations = append(res.Violations, report.Violation{Property: "*", Kind: "broken-correspondence",
					Key:    "node-level model differs from implementation",
					What:   fmt.Sprintf("op %q: %v", clip(rr.Mismatch.Op), rr.Mismatch.Fields),
					Replay: p})
			}
		}
		for _, v := range rr.Violations {
			k := v.Prop + "|" + v.Key
			res.Stats["violation_"+v.Prop]++
			if seenV[k] {
				continue
			}
			seenV[k] = true
			one := rr
			one.Violations = []sim.Violation{v}
			one.Opts.Steps = v.Step + 1
			p := report.WriteReplay(fmt.Sprintf("sim_%s_%d.json", strings.ReplaceAll(v.Prop, "*", "any"), rr.Opts.Seed), one)
			res.Violations = append(res.Violations, report.Violation{Property: v.Prop, Kind: "history", Key: v.Key, What: v.What, Replay: p, Concrete: true})
		}
	}
}

func doReplay(path string, trace, useModel bool) {
	b, err := os.ReadFile(path)
	if err != nil {
		fmt.Fprintln(os.Stderr, err)
		os.Exit(2)
	}
	var rr runResult
	if err := json.Unmarshal(b, &rr); err != nil {
		fmt.Fprintln(os.Stderr, err)
		os.Exit(2)
	}
	o := rr.Opts
	o.Trace = trace
	c := sim.NewCluster(o)
	c.Run()
	if trace {
		for _, l := range c.TraceLog {
			fmt.Println(l)
		}
	}
	res := report.New("sim/replay", "quick", o.Seed)
	res.Evaluations = 1
	for _, v := range c.Violations {
		fmt.Printf("violation %s [%s]: %s (step %d)\n", v.Prop, v.Key, v.What, v.Step)
		res.Violations = append(res.Violations, report.Violation{Property: v.Prop, Kind: "history", Key: v.Key, What: v.What, Replay: path, Concrete: true})
	}
	if useModel {
		o2 := rr.Opts
		r2 := oneRun(o2, true)
		if r2.SpecFail != nil {
			mb, _ := json.MarshalIndent(r2.SpecFail, "", " ")
			fmt.Printf("spec check failed: %s\n", mb)
			res.Disagreements++
			res.Violations = append(res.Violations, report.Violation{Property: "SPEC", Kind: "broken-correspondence", Key: "implementation step is not a step of the abstract protocol", What: clip(r2.SpecFail.Action), Replay: path})
		}
		if r2.Mismatch != nil {
			mb, _ := json.MarshalIndent(r2.Mismatch, "", " ")
			fmt.Printf("model mismatch: %s\n", mb)
			res.Disagreements++
			res.Violations = append(res.Violations, report.Violation{Property: "*", Kind: "broken-correspondence", Key: "node-level model differs from implementation", What: clip(r2.Mismatch.Op), Replay: path})
		}
	}
	res.Emit()
}
