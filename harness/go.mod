module verif/harness

go 1.26

toolchain go1.26.7

require (
	go.etcd.io/raft/v3 v3.0.0-00010101000000-000000000000
	google.golang.org/protobuf v1.36.12
)

require (
	golang.org/x/mod v0.22.0 // indirect
	golang.org/x/sync v0.10.0 // indirect
	golang.org/x/tools v0.29.0
)

replace go.etcd.io/raft/v3 => /repo
