module verif/harness

go 1.26

toolchain go1.26.7

require (
	go.etcd.io/raft/v3 v3.0.0-00010101000000-000000000000
	google.golang.org/protobuf v1.36.12
)

replace go.etcd.io/raft/v3 => /repo
