#!/bin/bash
# eval_seed_wt.sh <seed dir> <runs> [mode] [tier]: evaluates the simulator (monitors + model diff + spec check) against a
# seeded change in a scratch worktree (does not touch /repo). Prints the violation summary.
S=$1; RUNS=${2:-480}; MODE=${3:-mixed}; TIER=${4:-quick}
W=/tmp/evalwt_$$; H=/tmp/evalh_$$
export GOFLAGS=-mod=mod GOPROXY=off
git -C /repo worktree add -q $W HEAD || exit 2
trap 'git -C /repo worktree remove --force $W; rm -rf $H' EXIT
git -C $W apply $S/patch.diff || { echo "patch does not apply"; exit 3; }
rsync -a --exclude bin /verif/harness/ $H/
sed -i "s#=> /repo#=> $W#" $H/go.mod
(cd $H && go build -tags verif -o $H/bin/ ./cmd/sim) || { echo "harness build failed"; exit 4; }
cd $H && ./bin/sim -tier $TIER -runs $RUNS -mode $MODE -seed ${SEED:-7} -corpus /verif/corpus | python3 -c "
import sys,json
for l in sys.stdin:
    if l.startswith('RESULT '):
        r=json.loads(l[7:])
        print('evaluations',r['evaluations'],'disagreements',r['disagreements'],'wall',round(r['wall_s'],1))
        for v in (r['violations'] or []):
            print('  ',v['property'],v['kind'],'|',v['key'],'|',v['what'][:220])
"
