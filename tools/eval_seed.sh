#!/bin/bash
# eval_seed.sh <seed dir> <property ids...> : applies the seeded change to /repo, runs the checks, reverts.
S=$1; shift
cd /repo && git diff --quiet || { echo "/repo not clean"; exit 2; }
git -C /repo apply $S/patch.diff || { echo "patch does not apply"; exit 3; }
trap 'git -C /repo checkout -- . ; (cd /verif/harness && GOFLAGS=-mod=mod GOPROXY=off go build -tags verif -o bin/ ./cmd/...)' EXIT
cd /verif
for p in "$@"; do
  echo "--- bin/check $p (tier ${VERIF_TIER:-quick})"
  bin/check $p 2>&1 | tail -${TAIL:-4} | cut -c1-600
  echo "exit=${PIPESTATUS[0]}"
done
