#!/bin/bash
# eval_all_seeds.sh [tier]: runs bin/check <property> against every seeded change (applied to /repo, reverted afterwards)
# and prints one verdict line per seed. /repo must be clean and must not be used by anything else meanwhile.
cd /verif
export VERIF_TIER=${1:-quick}
for d in seeded/*/; do
  s=$(basename $d); p=${s%%-*}
  out=$(tools/eval_seed.sh /verif/$d $p 2>&1)
  v=$(echo "$out" | grep -E "^VIOLATION|^OK " | tail -1 | cut -c1-160)
  echo "$s | $v"
done
