#!/bin/bash
# rate_seed.sh <seed dir> <mode> <runs> [seed]: applies the seeded change to /repo, runs the simulator in one mode,
# prints how many runs disagree / violate, reverts, rebuilds the harness on the clean tree.
S=$1; MODE=$2; RUNS=$3; SEED=${4:-7}
cd /repo && git diff --quiet || { echo "/repo not clean"; exit 2; }
git -C /repo apply $S/patch.diff || { echo "patch does not apply"; exit 3; }
export GOFLAGS=-mod=mod GOPROXY=off VERIF_ROOT=/verif
restore() { git -C /repo checkout -- . ; (cd /verif/harness && go build -tags verif -o bin/ ./cmd/...); }
trap restore EXIT
cd /verif/harness && go build -tags verif -o bin/ ./cmd/... || exit 4
cd /verif && ./harness/bin/sim -tier quick -runs $RUNS -mode $MODE -seed $SEED -workers 12 | grep RESULT | python3 -c "
import sys,json
for l in sys.stdin:
    r=json.loads(l[7:]); print('runs',r['evaluations'],'disagreeing',r['disagreements'],'wall',round(r['wall_s']))
    for v in (r['violations'] or [])[:6]: print('  ',v['property'],v['key'],'|',v['what'][:200])"
