#!/bin/bash
# sweep.sh: unchanged-tree sweep of the simulator over modes and seeds (run from a /verif snapshot via `vp run`)
cd "$(dirname "$0")/.."
ROOT=$(pwd)
export GOFLAGS=-mod=mod GOPROXY=off VERIF_ROOT=$ROOT
(cd lean && lake build >/dev/null 2>&1)
# the harness is built once, against /repo as it is at this moment: refuse a tree with uncommitted changes (a seeded
# change applied for an evaluation) and say which commit was built
git -C /repo diff --quiet || { echo "sweep: /repo has uncommitted changes, not building against it"; exit 2; }
echo "sweep: harness built against /repo $(git -C /repo rev-parse --short HEAD)"
(cd harness && sort -u go.sum.own /repo/go.sum > go.sum && go build -tags verif -o bin/ ./cmd/...) || exit 2
for seed in ${SEEDS:-101 102 103 104 105 106}; do
  for mode in ${MODES:-all nodefuzz mixed snap figure8 asynccrash single zero converge}; do
    ./harness/bin/sim -tier ${TIER:-quick} -runs ${RUNS:-480} -mode $mode -seed $seed -workers ${WORKERS:-8} | python3 -c "
import sys,json
for l in sys.stdin:
    if l.startswith('RESULT '):
        r=json.loads(l[7:])
        print('seed $seed mode $mode evaluations',r['evaluations'],'disagreements',r['disagreements'],'wall',round(r['wall_s'],1),'ops',r['stats'].get('node_ops'))
        for v in (r['violations'] or []):
            print('  VIOL',v['property'],v['kind'],'|',v['key'],'|',v['what'][:300],'|',v['replay'])
"
  done
done
