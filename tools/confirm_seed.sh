#!/bin/bash
# confirm_seed.sh <mutation dir (with patch.diff, demo file(s), meta.json)> : verifies in a scratch worktree that
#  (1) the patch applies and builds, (2) the existing suite passes with it, (3) the demo fails with it and passes without.
set -u
M=$1
W=/tmp/confirm_$$
export GOFLAGS=-mod=mod GOPROXY=off
git -C /repo worktree add -q $W HEAD || exit 2
trap 'git -C /repo worktree remove --force $W' EXIT
cd $W
cp $M/*_test.go . 2>/dev/null
for f in $M/*_test.go.txt; do [ -f "$f" ] && cp "$f" "./$(basename "${f%.txt}")"; done
for d in $M/*/; do [ -d "$d" ] && for f in $d*_test.go; do [ -f "$f" ] && cp "$f" "./$(basename $d)/"; done; done
DEMO=$(python3 -c "import json;print(json.load(open('$M/meta.json')).get('demo_cmd',''))" | sed "s#cd /tmp/mut[234567]\?_[A-Za-z0-9_]*#cd $W#g")
echo "demo cmd: $DEMO"
echo "--- without change"
bash -c "$DEMO" > /tmp/confirm_without.txt 2>&1; R0=$?
tail -3 /tmp/confirm_without.txt
git apply $M/patch.diff || { echo "PATCH DOES NOT APPLY"; exit 3; }
go build ./... || { echo "BUILD FAILS"; exit 4; }
echo "--- suite with change (demo excluded)"
mkdir -p /tmp/confirm_demo_$$ && mv *mutation*_test.go /tmp/confirm_demo_$$/ 2>/dev/null; mkdir -p /tmp/confirm_demo_$$/sub && for f in */*mutation*_test.go; do [ -f "$f" ] && mkdir -p /tmp/confirm_demo_$$/sub/$(dirname $f) && mv $f /tmp/confirm_demo_$$/sub/$f; done
go test -count=1 ./... > /tmp/confirm_suite.txt 2>&1; RS=$?
if [ $RS -ne 0 ]; then  # rafttest uses wall-clock timers and is flaky under load: retry the failing packages
  for pkg in $(grep -E "^FAIL\s+go.etcd.io" /tmp/confirm_suite.txt | awk '{print $2}'); do
    ok=1; for k in 1 2 3; do go test -count=1 $pkg > /tmp/confirm_retry.txt 2>&1 && { ok=0; break; }; done
    echo "retry $pkg -> $ok"; RS=$ok; [ $ok -ne 0 ] && break
  done
fi
tail -7 /tmp/confirm_suite.txt | grep -v "^raft20"
mv /tmp/confirm_demo_$$/*_test.go . 2>/dev/null; (cd /tmp/confirm_demo_$$/sub && find . -name "*_test.go" | while read f; do mv $f '"$W"'/$f; done); rm -rf /tmp/confirm_demo_$$
echo "--- demo with change"
bash -c "$DEMO" > /tmp/confirm_with.txt 2>&1; R1=$?
grep -E "^(--- FAIL|FAIL|ok|PASS)" /tmp/confirm_with.txt | head -5
echo "RESULT without=$R0 suite=$RS with=$R1  (want 0 0 nonzero)"
