#!/usr/bin/env python3
# uncovered.py <cover profile>: lists library blocks never executed (merging duplicates), skipping panic-only blocks
import sys,re,collections
cov=collections.defaultdict(int)
for l in open(sys.argv[1]):
    if l.startswith('mode:'): continue
    m=re.match(r'(.+):(\d+)\.(\d+),(\d+)\.(\d+) (\d+) (\d+)',l)
    f,sl,sc,el,ec,n,c=m.groups()
    cov[(f,int(sl),int(sc),int(el),int(ec))]+=int(c)
skip=('verif_hooks','raftpb/','rafttest','/node.go','state_trace','logger.go','status.go','bootstrap.go','_string.go','verif/harness')
for (f,sl,sc,el,ec),c in sorted(cov.items()):
    if c>0 or any(s in f for s in skip) or 'go.etcd.io/raft/v3' not in f: continue
    path='/repo/'+f.split('go.etcd.io/raft/v3/')[1]
    src=open(path).read().split('\n')[sl-1:el]
    txt=' '.join(s.strip() for s in src)
    if re.search(r'panic\(|Panicf|Fatalf|Panic\(',txt) : continue
    if re.search(r'func \(.*\) (String|Describe|MarshalJSON)',txt): continue
    print(f"{path[6:]}:{sl}-{el}: {txt[:160]}")
